/-
C19 — no period dividing (2^64 − 1)/3.
`J3` is the inverse of `stepMat ^ ((2^64−1)/3) + 1` over GF(2).  It was found by Gaussian
elimination outside Lean (untrusted); what is checked here, by one kernel evaluation on the
packed mirror (≈ 1 s), is `J3 · (stepMat ^ e + 1) = 1`.
-/
import Retro.Lemmas.XorshiftPacked

namespace Retro.Props.C19
open Retro.Rand Retro.Xorshift

/-- (2^64 − 1) / 3 -/
def e3 : Nat := 6148914691236517205

def J3 : Mat :=
  [
   0x9a774413e5bc0419#64, 0x23319a7cefb52f20#64, 0x6effc71e59e8c131#64, 0x4ce0503299f9af93#64,
   0xac1da5563c70a543#64, 0x5ac065e4d4d7fb41#64, 0xfae6fb73239db1fc#64, 0xab84b87c4d4e507c#64,
   0xe78cf6214682c386#64, 0xe151ea9828aa30ca#64, 0x26b135108a1c67a1#64, 0x155ed7760e647d2c#64,
   0x166c0c0f08bd4688#64, 0xccfb4b307c38fdf0#64, 0xec2056a80c6c418b#64, 0x9307ccc723adfd99#64,
   0x0b52151b93a181b5#64, 0xff5e81f1208ee02b#64, 0x4b1e0b539e5bc74e#64, 0xad182fda8c986a0f#64,
   0x789e43d7b1d20f4a#64, 0xa4dae5c4f6b9cdfe#64, 0xdf81f00ddd3b8575#64, 0xe9edc0028bc3141c#64,
   0xd72b7e777cfcbe9a#64, 0xd9d8651c91100867#64, 0x7f9c654908603571#64, 0x54339e73b0bc11e6#64,
   0x887758e7434d496c#64, 0x74ac33e3a957f7cb#64, 0x6d633c9c8803e673#64, 0x1ff447820809ca7d#64,
   0x91f28d9fdfe4e1b5#64, 0x799d28839c0bfcdb#64, 0x85a6570fa1fc8a18#64, 0x08a7b87a449829cd#64,
   0xe56d8c6bfa9b0b33#64, 0xb31e48ba3a9e4dc1#64, 0xe656402f676d8206#64, 0x8940d4ce8cf021f7#64,
   0xd9fa06cc185b28c2#64, 0x1b3df8997300f682#64, 0x86a768ab4ef3b796#64, 0xddd0ee98cf511a25#64,
   0x8ce7611ff6e2adb5#64, 0xb1d7cbc7c020317b#64, 0x8c4fd968b4c0246a#64, 0xb3669981b36d51f2#64,
   0xa6c1c34381e03be6#64, 0x3ce08174b702b720#64, 0xf940f4a37c3eb353#64, 0x6a7372779941f3a0#64,
   0x130bf4608cc7e64b#64, 0x9aa8eeca4dc48c16#64, 0xd7f7928ff749790c#64, 0x96d5a0d9a5f6f358#64,
   0x6123d72fc341b051#64, 0x4aa8c8926f1349d7#64, 0x23b663adbf4cb02b#64, 0x0c9586be9a39c5d7#64,
   0xdf6d396527220b20#64, 0x161bd9c24756c652#64, 0x1be7d449fa874c77#64, 0x18e0006341e668f2#64]

theorem certP_3 : certP J3 e3 = packM identity := by decide +kernel

theorem J3_inverse : mul J3 (addMat (matPow stepMat e3) identity) = identity :=
  inverse_of_certP (by decide) certP_3

/-- `step^[(2^64−1)/3]` fixes only the zero state. -/
theorem no_period_3 (x : BitVec 64) (h : step^[e3] x = x) : x = 0 :=
  fixed_eq_zero_of_inverse J3_inverse x h

end Retro.Props.C19
