/-
C19 — no period dividing (2^64 − 1)/5.
`J5` is the inverse of `stepMat ^ ((2^64−1)/5) + 1` over GF(2).  It was found by Gaussian
elimination outside Lean (untrusted); what is checked here, by one kernel evaluation on the
packed mirror (≈ 1 s), is `J5 · (stepMat ^ e + 1) = 1`.
-/
import Retro.Lemmas.XorshiftPacked

namespace Retro.Props.C19
open Retro.Rand Retro.Xorshift

/-- (2^64 − 1) / 5 -/
def e5 : Nat := 3689348814741910323

def J5 : Mat :=
  [
   0xd1383d9c2df9039e#64, 0x1792d6d281ea41bb#64, 0x6e9d69a62fb4c6cf#64, 0x087e9aba758c5623#64,
   0xed7e9dc894405047#64, 0xf4597edf99006026#64, 0x8ab8ffc14af77e9d#64, 0x6a818c33cb8d6620#64,
   0xb6979c56882c3848#64, 0x3f9b605aa2298b48#64, 0x18b710fba06b4acd#64, 0x9714eac310e58a2d#64,
   0x19541406eea45a60#64, 0x5f2fd733e25a1924#64, 0xf99ba433d67cda37#64, 0xd33ab2ad6a6193c2#64,
   0xfec6b596be13e68a#64, 0x9ec7ac6d5baeacf0#64, 0x6f81a2ea520a8396#64, 0x14baba26e6f77a06#64,
   0xfe17fde92aa8f8cf#64, 0xffbad15f6f81c09c#64, 0xccc6ad0334499989#64, 0x6a250f7d56508f65#64,
   0x6b55c8b1fbd43458#64, 0x35d534707de5a95f#64, 0x164f40d70d56b688#64, 0x46e5c3be32dc4d2f#64,
   0x28fa5475b8f989ec#64, 0xbf493535c4ea05f1#64, 0x79cd8e0e6f0991ab#64, 0xe24aaff6147bd19a#64,
   0x16611a04b9ec429e#64, 0xf4a3a486ea60d3e9#64, 0xec570d096fe21aee#64, 0x230d93396fbdd09e#64,
   0x683508466430434f#64, 0x383e4c00ebaa79ba#64, 0xb53e233bc6e4ea33#64, 0x21b6ba1c3922c382#64,
   0x5b58d705f5209c10#64, 0x9d2bb7fc56547b25#64, 0xbdbb154a13ded6bd#64, 0x7861c360867592a0#64,
   0xdc4db31128a6dbcc#64, 0x23bf52136dbb036d#64, 0x4c8c4fa91e44749e#64, 0x29c3c9184efcfe8b#64,
   0x1ec9a65d1e0e7d3f#64, 0x338fc1112c1e8ed6#64, 0x61f5d95c953484c5#64, 0xbedc88abdffdc912#64,
   0x150d0a18e69b99b2#64, 0x0b4dd928ced8430d#64, 0xdf707250ac5665c9#64, 0x0454157d65d8bfb1#64,
   0xfd2e1a80f6ceab4e#64, 0x2e3caa699de982df#64, 0xf989755fc5458908#64, 0xa8b519e28315394f#64,
   0x0527d1053d0e66ff#64, 0x8c62c72c554924de#64, 0x9658d7e08da418de#64, 0xd42dc59ad03ea758#64]

theorem certP_5 : certP J5 e5 = packM identity := by decide +kernel

theorem J5_inverse : mul J5 (addMat (matPow stepMat e5) identity) = identity :=
  inverse_of_certP (by decide) certP_5

/-- `step^[(2^64−1)/5]` fixes only the zero state. -/
theorem no_period_5 (x : BitVec 64) (h : step^[e5] x = x) : x = 0 :=
  fixed_eq_zero_of_inverse J5_inverse x h

end Retro.Props.C19
