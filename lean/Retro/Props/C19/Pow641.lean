/-
C19 — no period dividing (2^64 − 1)/641.
`J641` is the inverse of `stepMat ^ ((2^64−1)/641) + 1` over GF(2).  It was found by Gaussian
elimination outside Lean (untrusted); what is checked here, by one kernel evaluation on the
packed mirror (≈ 1 s), is `J641 · (stepMat ^ e + 1) = 1`.
-/
import Retro.Lemmas.XorshiftPacked

namespace Retro.Props.C19
open Retro.Rand Retro.Xorshift

/-- (2^64 − 1) / 641 -/
def e641 : Nat := 28778071877862015

def J641 : Mat :=
  [
   0x856c82ee120500b2#64, 0x88031f2b0914b157#64, 0xc9e3cb5d32e708a2#64, 0x6919a1722e4f2561#64,
   0x25836a5a56e54f57#64, 0x72fea464c85859d8#64, 0x717d6ddaf3fbf00b#64, 0x161d6281439985ce#64,
   0x2f20c3ba307e630a#64, 0x1e79bf207f8c98ec#64, 0x0bdf6e376f621265#64, 0xb1dcff6633ea4aa0#64,
   0x5c05d60a01c4185c#64, 0x93fc9a9fe0b68f5e#64, 0x209f882d46203720#64, 0xe527be80fee6621c#64,
   0x7178a2aa01c27721#64, 0xf80c76f4b04f5cdc#64, 0xe6e567d99407bac9#64, 0x3aab22c49bd6e4a5#64,
   0xb39fc4fbe8aebc62#64, 0xee7466ff94e9c5e5#64, 0x3efd5ce23e9d288d#64, 0x7d50fe0efd31a900#64,
   0x4bb9ad9d3f47451d#64, 0x4b15e5d47ec57b69#64, 0x7d7dfbafb1053e13#64, 0x97a449135c6a6116#64,
   0x3fd338c4b242525f#64, 0xb4c1959e95697963#64, 0xb3f501906f27ec08#64, 0x9c0795367007d198#64,
   0x3804ac05955e384b#64, 0x83927233320a8bb6#64, 0x86560851d3a81514#64, 0x31fdb823c1594c08#64,
   0x7cb8c0840d06b9ba#64, 0xa8a49b1924e746cc#64, 0x3a7b2008dc192dec#64, 0x4d3cf651086f02ff#64,
   0x4f2bea0f7e6650e6#64, 0xeca5d9c03f25a8ad#64, 0xe1fe51b6a0e19aae#64, 0x676c6f0f6e31ac91#64,
   0x94cbf4d53603029d#64, 0xdc25114706c151ba#64, 0x41a7c51c027c12f6#64, 0x9fe94beaf7365a30#64,
   0xfb6133f03af3f5ea#64, 0xcfcc98f7f2932580#64, 0x981c5c5a3e8e3956#64, 0x0954ff2a3047b700#64,
   0x5aad01e6f313ae54#64, 0x2ccc6476a7a95d0c#64, 0x1fcabd6cba96785b#64, 0xbf1f4998c2221547#64,
   0x1e52b8028ff20006#64, 0x0ffc504998024b77#64, 0x7f87bbed8336406e#64, 0xcc0c0b9cc8dfaa44#64,
   0x3e47e0ede7fba629#64, 0xbea2d7fa75b24df3#64, 0x859bf333421663e6#64, 0xa7ac82a9b7a9834c#64]

theorem certP_641 : certP J641 e641 = packM identity := by decide +kernel

theorem J641_inverse : mul J641 (addMat (matPow stepMat e641) identity) = identity :=
  inverse_of_certP (by decide) certP_641

/-- `step^[(2^64−1)/641]` fixes only the zero state. -/
theorem no_period_641 (x : BitVec 64) (h : step^[e641] x = x) : x = 0 :=
  fixed_eq_zero_of_inverse J641_inverse x h

end Retro.Props.C19
