/-
C19 — no period dividing (2^64 − 1)/65537.
`J65537` is the inverse of `stepMat ^ ((2^64−1)/65537) + 1` over GF(2).  It was found by Gaussian
elimination outside Lean (untrusted); what is checked here, by one kernel evaluation on the
packed mirror (≈ 1 s), is `J65537 · (stepMat ^ e + 1) = 1`.
-/
import Retro.Lemmas.XorshiftPacked

namespace Retro.Props.C19
open Retro.Rand Retro.Xorshift

/-- (2^64 − 1) / 65537 -/
def e65537 : Nat := 281470681808895

def J65537 : Mat :=
  [
   0xab49b2b0f58ed583#64, 0x33b6d5c3a4881a46#64, 0x138542002672d639#64, 0xab0c26839791d317#64,
   0xc5031ba5e5a885ff#64, 0xc528451a9c8cc256#64, 0x01058a7ab3674595#64, 0x21b5eaded87c246b#64,
   0x0063ee1a05de96e3#64, 0x2921d0891f42aced#64, 0x6615a9a19a839999#64, 0xa3ce4704a2d4fec5#64,
   0xc54b44901bb103e2#64, 0xc6149edce0280e74#64, 0x3b391dfe307893e4#64, 0xeb0f6483fe764e18#64,
   0x612fd41d075806fd#64, 0x16540f3bd3e0cdd0#64, 0x7e87b3a8bfc50394#64, 0xae1304b9cd2fef0b#64,
   0x9184af3263bd1960#64, 0x8275d3d4d06176e4#64, 0xb92acfc0c03d3531#64, 0xcebf2cc57046de6f#64,
   0x9903973b65e4b11b#64, 0x7eee9fb58b28040c#64, 0x1533423340e7411a#64, 0xfd77a6056e9b157e#64,
   0x0189b0b4f0e12d01#64, 0x597159164acb5a3a#64, 0x0e244c70b9d74535#64, 0x5e42bf7e23c644b4#64,
   0x0a215f4f403b7810#64, 0x9184be9e489bf40c#64, 0xfdc6294a50a4f918#64, 0x6d9eebfbbf2aa965#64,
   0xdfe518eab4aa6377#64, 0x1aadacd3123a79e1#64, 0x7610a03524d4d987#64, 0xef99a21d272a6508#64,
   0xfef10d508406b2e4#64, 0xe1a9029f8cdae374#64, 0xcb9e4aa6c37cd927#64, 0x0f9312e577495eb5#64,
   0x1fa92c4746fc2c1c#64, 0x2728f7f9d03d0201#64, 0x01df37fc0552bcb5#64, 0xff5cdc018f93e9da#64,
   0x9c64bb30fe8c837d#64, 0xf748afb10c15628a#64, 0x81518fa66af9fb31#64, 0x18efbba3ca9a3540#64,
   0xf960586368ccc34f#64, 0xf74f9166204a3391#64, 0xf63f45470f56ed10#64, 0x830762cb3593be90#64,
   0x84de3136c08a6559#64, 0x45f49053260058ee#64, 0xc05fbdf858502054#64, 0x4d15b2f807c707b5#64,
   0x7f53aed7e980c8c8#64, 0x03e8b8c543184876#64, 0xf7e048026fa7a847#64, 0xd47244b75a80ec92#64]

theorem certP_65537 : certP J65537 e65537 = packM identity := by decide +kernel

theorem J65537_inverse : mul J65537 (addMat (matPow stepMat e65537) identity) = identity :=
  inverse_of_certP (by decide) certP_65537

/-- `step^[(2^64−1)/65537]` fixes only the zero state. -/
theorem no_period_65537 (x : BitVec 64) (h : step^[e65537] x = x) : x = 0 :=
  fixed_eq_zero_of_inverse J65537_inverse x h

end Retro.Props.C19
