/-
C19 — no period dividing (2^64 − 1)/6700417.
`J6700417` is the inverse of `stepMat ^ ((2^64−1)/6700417) + 1` over GF(2).  It was found by Gaussian
elimination outside Lean (untrusted); what is checked here, by one kernel evaluation on the
packed mirror (≈ 1 s), is `J6700417 · (stepMat ^ e + 1) = 1`.
-/
import Retro.Lemmas.XorshiftPacked

namespace Retro.Props.C19
open Retro.Rand Retro.Xorshift

/-- (2^64 − 1) / 6700417 -/
def e6700417 : Nat := 2753074036095

def J6700417 : Mat :=
  [
   0xe47ac53b23e32867#64, 0x17bac2e1257f1a78#64, 0xf681d958aa12a082#64, 0x101c47a255b45e9a#64,
   0x02e56846b9715c41#64, 0x5ea5bcac7f7da65a#64, 0x4be19d2917ffa38b#64, 0x366eea77aae6c564#64,
   0x26c4650e88ae6d0e#64, 0x34df540c0e0966fd#64, 0x37472555fb5cc5a9#64, 0xb8161bde85f3bd20#64,
   0x07f6e3ad9d851aee#64, 0xafcc2a62949a43a7#64, 0xab0e3775c786eb45#64, 0x84d46c6c00085448#64,
   0xd1837dbc2615482f#64, 0x738ea577f2d07fdd#64, 0xc00503843a60be0c#64, 0x312c4a4bb3cc6315#64,
   0x301033a99e87c64b#64, 0x4d61ac1fd682eff0#64, 0xb96953ba2d8b79c7#64, 0x52efbfa1a08d0d52#64,
   0x08a0479a550802a2#64, 0x1d923bf71d465ec3#64, 0xc635d9fe88337c35#64, 0xb637061efb206009#64,
   0x311448271882192a#64, 0xa6761a641ee96eac#64, 0xa899e2671557ad33#64, 0x5a02c7078853f2bb#64,
   0x871baff98d464151#64, 0x20a1b6fc3d891a91#64, 0xdbe4a1cac3f1e775#64, 0xe063740daeea4e0d#64,
   0x9c443b3075836782#64, 0xcaa32045b6e5694d#64, 0x05535b89048dd3e3#64, 0x80ce978e5152def1#64,
   0x52ef5cf703b454ff#64, 0x3c3ba31781ac9feb#64, 0x0cf605568a456e46#64, 0xafd344a6ba54460f#64,
   0x734927405c0486e4#64, 0xf79fdc40af7f550d#64, 0x0249ec739f660893#64, 0x10da70ff312641f4#64,
   0x78cb13cf10164789#64, 0xcf16580339919f92#64, 0x165b133044cd5a3e#64, 0xfb733dc6c13b325a#64,
   0xdaf66581415e4ef1#64, 0x14469bdc2a1c0966#64, 0xb800be21a0a97a4c#64, 0x4f1f15e0f30ea4eb#64,
   0x486fbc4b68cd8912#64, 0x6c11fedff26b5f32#64, 0x3fb7bcabfcb42d68#64, 0x171f48c6f71f38c2#64,
   0x5ff6c92844e1b328#64, 0xf19ca0d1dc7d2600#64, 0xb960c3d2efe875d0#64, 0x19f93bc070f4a901#64]

theorem certP_6700417 : certP J6700417 e6700417 = packM identity := by decide +kernel

theorem J6700417_inverse : mul J6700417 (addMat (matPow stepMat e6700417) identity) = identity :=
  inverse_of_certP (by decide) certP_6700417

/-- `step^[(2^64−1)/6700417]` fixes only the zero state. -/
theorem no_period_6700417 (x : BitVec 64) (h : step^[e6700417] x = x) : x = 0 :=
  fixed_eq_zero_of_inverse J6700417_inverse x h

end Retro.Props.C19
