/-
C19 — order of the step matrix: `stepMat ^ (2^64 − 1) = 1`.
One kernel evaluation (63 squarings and 63 products of 64×64 GF(2) matrices on the packed
mirror, `Retro.Lemmas.XorshiftPacked`).
-/
import Retro.Lemmas.XorshiftPacked

namespace Retro.Props.C19
open Retro.Rand Retro.Xorshift

/-- Kernel-evaluated (≈ 1 s). -/
theorem powP_full : powP (2 ^ 64 - 1) = packM identity := by decide +kernel

/-- The step matrix has order dividing `2^64 − 1`. -/
theorem order_full : matPow stepMat (2 ^ 64 - 1) = identity :=
  pow_eq_identity_of_powP powP_full

/-- Negative control for the evaluator: a wrong exponent is rejected (the order is not 3),
and the packed power agrees with three literal steps on a sample state. -/
example : powP 3 ≠ packM identity := by decide +kernel
example : apply (matPow stepMat 3) 0x2545F4914F6CDD1D#64 = step (step (step 0x2545F4914F6CDD1D#64)) := by
  decide +kernel

end Retro.Props.C19
