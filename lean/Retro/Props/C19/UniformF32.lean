/-
C19 — a `Uniform<f32>` sample lies in the CLOSED range `[start, end]` in IEEE binary32, for every one of the
2^23 mantissas and every finite proper range whose width does not overflow (theorems at the bit level).

`Uniform<f32>::sample` (rand.rs:261-268):

    let (exp, mantissa) = (127 << 23, rng.next_bits() >> 41);
    let unit = f32::from_bits(exp | mantissa as u32) - 1.0;
    unit * (end - start) + start

In exact arithmetic the sample is in `[start, end)` (`uniformRat_range`).  In f32 the result can EQUAL `end`
(`affine_f32_returns_end`, the recorded known finding).  What holds in f32, and is proved here with no epsilon:

  * `unit_f32_exact`            the bit trick is exact: `from_bits(0x3F800000 | m) - 1.0` has the value
                                `m / 2^23 = unitRat m` for every `m < 2^23` (`1 + m/2^23` is the value of the
                                pattern; the difference has 23 significant bits, so the subtraction does not round)
  * `uniform_f32_ge_start`      the sample is finite and `≥ start`
  * `uniform_f32_le_end`        the sample is finite and `≤ end`
  * `uniform_f32_in_closed_range`   both; `uniform_f32_le_cmp` restates it with the f32 comparisons
                                `start <= s && s <= end`
  * `properRange_of_finite_width`, `finite_width_of_properRange`, `uniform_f32_in_closed_range_of_finite_width`
                                the width side condition IS "the f32 width `end - start` is finite"
                                (`F32.ofRat_overflow`: at or beyond `2^128 − 2^103` rounding gives `±∞`)
  * `uniform_f32_list_in_closed_range`   componentwise for the array / vector / point distributions
                                (`array::from_fn(|i| Uniform(start[i]..end[i]).sample(rng))`)
  * sharpness                   `uniform_b32_returns_end` (the upper bound is attained: the interval cannot be made
                                half-open in f32; same witness as `affine_f32_returns_end`, on the bit model),
                                `uniform_f32_width_overflow` (`start = −3e38`, `end = 3e38`: the width overflows to
                                `+∞`; the sample is `+∞` for every mantissa tried but 0, and NaN (`0·∞`) for mantissa 0
                                — the side condition on the width cannot be dropped)

The scalar `B32` is a binary32 BIT PATTERN with `+ − *` = `F32.add / sub / mul` (one round-to-nearest-even of the exact
result, IEEE NaN / ∞ / signed-zero rules; `Model/F32Ops.lean`).  `uniformB32` is the GENERIC model function
`Rand.affine` — the definition `Rand.uniformF32` and `Rand.uniformRat` run — instantiated at `B32`, on the unit sample
built by the same bit trick as in `Rand.uniformF32`.  `uniformF32` itself computes on core `Float32`; the kernel evaluates
it on literals (`uniformB32_agrees_*` below), and the C19 digest correspondence compares it bit for bit with the Rust
code on all 2^23 mantissas per range.

Side conditions, all necessary:
  * `start`, `end` finite (`toRat? = some`),
  * `start < end` (proper range; for `start = end` the result is `start` as well, not needed by the property),
  * exact width `end − start < 2^128 − 2^103`, the overflow threshold of round-to-nearest: exactly the widths whose
    f32 difference is finite (`uniform_f32_width_overflow` is what happens beyond it).
No normality condition: a subnormal f32 width is an EXACT difference (`F32.rep_sub_small`).
-/
import Retro.Model.Rand
import Retro.Lemmas.F32Pred

namespace Retro.Props.C19
open Retro Retro.F32 Retro.Rand

/-! ### Binary32 bit patterns as a scalar of the generic model -/

/-- A binary32 bit pattern, with the arithmetic of the Rust `f32` (`Model/F32Ops.lean`). -/
structure B32 where
  bits : UInt32

instance : Add B32 := ⟨fun a b => ⟨F32.add a.bits b.bits⟩⟩
instance : Sub B32 := ⟨fun a b => ⟨F32.sub a.bits b.bits⟩⟩
instance : Mul B32 := ⟨fun a b => ⟨F32.mul a.bits b.bits⟩⟩

/-- rand.rs:265-266 `f32::from_bits(127 << 23 | mantissa as u32) - 1.0` on bit patterns. -/
def unitB32 (m : Nat) : B32 := (⟨0x3F800000 ||| UInt32.ofNat m⟩ : B32) - ⟨F32.one⟩

/-- rand.rs:267 `unit * (end - start) + start`: the generic `Rand.affine` at `B32` (the literal form of
`Rand.uniformF32`, on bit patterns). -/
def uniformB32 (m : Nat) (start stop : B32) : B32 := affine (unitB32 m) start stop

theorem uniformB32_bits (m : Nat) (start stop : B32) :
    (uniformB32 m start stop).bits =
      F32.add (F32.mul (unitB32 m).bits (F32.sub stop.bits start.bits)) start.bits := rfl

/-- The bit model and the core-`Float32` model agree (kernel evaluation on literals; the first is the known
finding's witness, the others an interior mantissa, a negative range and a subnormal width). -/
theorem uniformB32_agrees_witness :
    (uniformF32 8388607 (Float32.ofBits 0x447a0000) (Float32.ofBits 0x447a4000)).toBits =
      (uniformB32 8388607 ⟨0x447a0000⟩ ⟨0x447a4000⟩).bits := by decide +kernel

example : (uniformF32 1234567 (Float32.ofBits 0xC0400000) (Float32.ofBits 0x40A00000)).toBits =
    (uniformB32 1234567 ⟨0xC0400000⟩ ⟨0x40A00000⟩).bits := by decide +kernel
example : (uniformF32 8388607 (Float32.ofBits 0x00000003) (Float32.ofBits 0x00000009)).toBits =
    (uniformB32 8388607 ⟨0x00000003⟩ ⟨0x00000009⟩).bits := by decide +kernel

/-! ### 1. The unit sample is exact -/

/-- `127 << 23 | m` is the pattern with exponent field 127 and mantissa field `m`. -/
theorem unit_bits_pack {m : ℕ} (hm : m < 2 ^ 23) :
    (0x3F800000 ||| UInt32.ofNat m : UInt32) = pack false 127 m := by
  rw [← UInt32.toNat_inj, toNat_pack (by omega) hm, UInt32.toNat_or, UInt32.toNat_ofNat']
  have h1 : UInt32.toNat 0x3F800000 = 127 <<< 23 := by decide
  have h2 : m % 2 ^ 32 = m := Nat.mod_eq_of_lt (by omega)
  rw [h1, h2, ← Nat.shiftLeft_add_eq_or_of_lt hm, Nat.shiftLeft_eq]
  simp

/-- The pattern `0x3F800000 | m` is the float `1 + m / 2^23 ∈ [1, 2)`. -/
theorem one_to_two_value {m : ℕ} (hm : m < 2 ^ 23) :
    toRat? (0x3F800000 ||| UInt32.ofNat m : UInt32) = some (1 + (m : ℚ) / 8388608) := by
  rw [unit_bits_pack hm, toRat?_pack (by omega) hm]
  simp only [Bool.false_eq_true, ↓reduceIte, magOf]
  rw [if_neg (by omega)]
  congr 1
  have : ((127 : ℕ) : ℤ) - 150 = -23 := by norm_num
  rw [this]
  have e23 : (2:ℚ) ^ (-23 : ℤ) = 1 / 8388608 := by norm_num
  rw [e23]; push_cast; ring

theorem rep_unit {m : ℕ} (hm : m < 2 ^ 23) : Rep ((m : ℚ) / 8388608) := by
  refine ⟨m, -23, by omega, by norm_num, by norm_num, ?_⟩
  rw [abs_of_nonneg (by positivity)]
  have e23 : (2:ℚ) ^ (-23 : ℤ) = 1 / 8388608 := by norm_num
  rw [e23]; ring

/-- **The bit trick is exact**: for every mantissa `m < 2^23` the unit sample is finite with value `m / 2^23`,
the `unitRat m` of the exact model.  (What `Model/Rand.lean` leaves to the digest correspondence.) -/
theorem unit_f32_exact {m : ℕ} (hm : m < 8388608) : toRat? (unitB32 m).bits = some (unitRat m) := by
  have hm' : m < 2 ^ 23 := by omega
  have h := sub_one_exact (one_to_two_value hm')
    (by rw [show (1 + (m : ℚ) / 8388608 - 1) = (m : ℚ) / 8388608 by ring]; exact rep_unit hm')
  rw [show (1 + (m : ℚ) / 8388608 - 1) = (m : ℚ) / 8388608 by ring] at h
  exact h

example : toRat? (unitB32 8388607).bits = some (8388607 / 8388608) := unit_f32_exact (by norm_num)

/-- the unit sample is in `[0, 1 − 2^-23]` -/
theorem unitRat_le {m : ℕ} (hm : m < 8388608) : 0 ≤ unitRat m ∧ unitRat m ≤ 1 - (2:ℚ) ^ (-23 : ℤ) := by
  have e23 : (2:ℚ) ^ (-23 : ℤ) = 1 / 8388608 := by norm_num
  unfold unitRat
  refine ⟨by positivity, ?_⟩
  rw [e23, div_le_iff₀ (by norm_num)]
  have : (m : ℚ) ≤ 8388607 := by exact_mod_cast Nat.le_of_lt_succ hm
  linarith

/-! ### 2.–4. The sample lies in `[start, end]` -/

/-- The finite-range hypothesis of the theorems below: `start`, `end` finite with values `A < B`, exact width below
the rounding-overflow threshold. -/
structure ProperRange (start stop : B32) (A B : ℚ) : Prop where
  hstart : toRat? start.bits = some A
  hstop : toRat? stop.bits = some B
  lt : A < B
  width : B - A < (2:ℚ)^128 - (2:ℚ)^103

/-- The width condition of `ProperRange` says exactly that the f32 width `end - start` is FINITE (did not overflow
to `+∞`): `2^128 − 2^103` is the overflow threshold of round-to-nearest. -/
theorem properRange_of_finite_width {start stop : B32} {A B D : ℚ} (hstart : toRat? start.bits = some A)
    (hstop : toRat? stop.bits = some B) (lt : A < B) (hw : toRat? (stop - start).bits = some D) :
    ProperRange start stop A B := by
  have := sub_finite_lt_thr hstop hstart (show toRat? (F32.sub stop.bits start.bits) = some D from hw)
  rw [abs_of_pos (by linarith)] at this
  exact ⟨hstart, hstop, lt, this⟩

/-- … and conversely the f32 width of a `ProperRange` is finite and positive. -/
theorem finite_width_of_properRange {start stop : B32} {A B : ℚ} (h : ProperRange start stop A B) :
    ∃ D : ℚ, toRat? (stop - start).bits = some D ∧ 0 < D := by
  obtain ⟨hU0, hU1⟩ := unitRat_le (m := 0) (by norm_num)
  obtain ⟨D, P, S, hD, -, -, hpos, -⟩ :=
    affine_unit_between h.hstart h.hstop (unit_f32_exact (m := 0) (by norm_num)) hU0 hU1 h.lt h.width
  exact ⟨D, hD, hpos⟩

/-- **Headline.**  For every mantissa `m < 2^23` and every finite proper range whose width does not overflow, the
f32 sample — and both intermediates `end − start`, `unit·(end − start)` — is finite, and `start ≤ sample ≤ end`. -/
theorem uniform_f32_in_closed_range {m : ℕ} (hm : m < 8388608) {start stop : B32} {A B : ℚ}
    (h : ProperRange start stop A B) :
    ∃ S : ℚ, toRat? (uniformB32 m start stop).bits = some S ∧ A ≤ S ∧ S ≤ B := by
  obtain ⟨hU0, hU1⟩ := unitRat_le hm
  obtain ⟨D, P, S, -, -, hS, -, -, h1, h2⟩ :=
    affine_unit_between h.hstart h.hstop (unit_f32_exact hm) hU0 hU1 h.lt h.width
  exact ⟨S, by rw [uniformB32_bits]; exact hS, h1, h2⟩

/-- The headline with the side condition as the code sees it: `start`, `end` and the f32 width `end - start` finite,
`start < end`. -/
theorem uniform_f32_in_closed_range_of_finite_width {m : ℕ} (hm : m < 8388608) {start stop : B32} {A B D : ℚ}
    (hstart : toRat? start.bits = some A) (hstop : toRat? stop.bits = some B) (lt : A < B)
    (hw : toRat? (stop - start).bits = some D) :
    ∃ S : ℚ, toRat? (uniformB32 m start stop).bits = some S ∧ A ≤ S ∧ S ≤ B :=
  uniform_f32_in_closed_range hm (properRange_of_finite_width hstart hstop lt hw)

example : ∃ S : ℚ, toRat? (uniformB32 8388607 ⟨0x447a0000⟩ ⟨0x447a4000⟩).bits = some S ∧ 1000 ≤ S ∧ S ≤ 1001 :=
  uniform_f32_in_closed_range_of_finite_width (D := 1) (by norm_num) (by decide +kernel) (by decide +kernel)
    (by norm_num) (by decide +kernel)

/-- The sample is `≥ start` (rounding is monotone and `start`, `0` are binary32 values). -/
theorem uniform_f32_ge_start {m : ℕ} (hm : m < 8388608) {start stop : B32} {A B : ℚ}
    (h : ProperRange start stop A B) :
    ∃ S : ℚ, toRat? (uniformB32 m start stop).bits = some S ∧ A ≤ S := by
  obtain ⟨S, hS, h1, -⟩ := uniform_f32_in_closed_range hm h
  exact ⟨S, hS, h1⟩

/-- The sample is `≤ end` (`fl(unit · fl(end − start))` is at most a binary32 value that is `≤ end − start`). -/
theorem uniform_f32_le_end {m : ℕ} (hm : m < 8388608) {start stop : B32} {A B : ℚ}
    (h : ProperRange start stop A B) :
    ∃ S : ℚ, toRat? (uniformB32 m start stop).bits = some S ∧ S ≤ B := by
  obtain ⟨S, hS, -, h2⟩ := uniform_f32_in_closed_range hm h
  exact ⟨S, hS, h2⟩

/-- The same with the f32 comparisons of the Rust test `start <= s && s <= end`. -/
theorem uniform_f32_le_cmp {m : ℕ} (hm : m < 8388608) {start stop : B32} {A B : ℚ}
    (h : ProperRange start stop A B) :
    F32.le start.bits (uniformB32 m start stop).bits = true ∧
    F32.le (uniformB32 m start stop).bits stop.bits = true := by
  obtain ⟨S, hS, h1, h2⟩ := uniform_f32_in_closed_range hm h
  rw [le_finite h.hstart hS, le_finite hS h.hstop]
  exact ⟨decide_eq_true h1, decide_eq_true h2⟩

/-- The hypotheses are satisfiable: `Uniform(1000.0..1001.0)`, the range of the known finding. -/
example : ProperRange ⟨0x447a0000⟩ ⟨0x447a4000⟩ 1000 1001 :=
  ⟨by decide +kernel, by decide +kernel, by norm_num, by norm_num⟩

/-- … and a range with a subnormal width (`3·2^-149 .. 9·2^-149`) … -/
example : ProperRange ⟨0x00000003⟩ ⟨0x00000009⟩ (3 * (2:ℚ)^(-149:ℤ)) (9 * (2:ℚ)^(-149:ℤ)) :=
  ⟨by decide +kernel, by decide +kernel, by norm_num, by norm_num⟩

/-- … and a range whose exact width `f32::MAX + 1` is above `f32::MAX` but below the overflow threshold
(`−f32::MAX .. 1.0`; the f32 width rounds to `f32::MAX`). -/
example : ProperRange ⟨0xFF7FFFFF⟩ ⟨0x3F800000⟩ (-((2:ℚ)^128 - (2:ℚ)^104)) 1 :=
  ⟨by decide +kernel, by decide +kernel, by norm_num, by norm_num⟩

/-- Componentwise for the array / vector / point distributions: every component drawn by
`array::from_fn(|i| Uniform(start[i]..end[i]).sample(rng))` lies in its own closed range. -/
def uniformB32List (l : List (Nat × B32 × B32)) : List B32 :=
  l.map fun t => uniformB32 t.1 t.2.1 t.2.2

theorem uniform_f32_list_in_closed_range (l : List (Nat × B32 × B32))
    (h : ∀ t ∈ l, t.1 < 8388608 ∧ ∃ A B : ℚ, ProperRange t.2.1 t.2.2 A B) :
    List.Forall₂ (fun (t : Nat × B32 × B32) (s : B32) =>
        F32.le t.2.1.bits s.bits = true ∧ F32.le s.bits t.2.2.bits = true) l (uniformB32List l) := by
  induction l with
  | nil => exact List.Forall₂.nil
  | cons t rest ih =>
    obtain ⟨hm, A, B, hr⟩ := h t (List.mem_cons_self ..)
    exact List.Forall₂.cons (uniform_f32_le_cmp hm hr) (ih fun t' ht' => h t' (List.mem_cons_of_mem _ ht'))

/-! ### 5. Sharpness -/

/-- The upper bound is attained on the bit model (the witness of `affine_f32_returns_end`): the interval cannot be
made half-open in f32. -/
theorem uniform_b32_returns_end :
    (uniformB32 8388607 ⟨0x447a0000⟩ ⟨0x447a4000⟩).bits = 0x447a4000 := by decide +kernel

/-- The lower bound is attained too (mantissa 0), as in exact arithmetic. -/
example : (uniformB32 0 ⟨0x447a0000⟩ ⟨0x447a4000⟩).bits = 0x447a0000 := by decide +kernel

/-- **The width side condition cannot be dropped.**  `Uniform(-3e38..3e38)`: both ends finite, `start < end`, but
`end − start = 6e38` overflows to `+∞`; the sample is `+∞` (outside the range) for mantissas `1`, `2^22`, `2^23 − 1`,
and `0 · ∞ = NaN` for mantissa `0`. -/
theorem uniform_f32_width_overflow :
    F32.sub 0x7f61b1e6 0xff61b1e6 = F32.posInf ∧
    (uniformB32 1 ⟨0xff61b1e6⟩ ⟨0x7f61b1e6⟩).bits = F32.posInf ∧
    (uniformB32 4194304 ⟨0xff61b1e6⟩ ⟨0x7f61b1e6⟩).bits = F32.posInf ∧
    (uniformB32 8388607 ⟨0xff61b1e6⟩ ⟨0x7f61b1e6⟩).bits = F32.posInf ∧
    (uniformB32 0 ⟨0xff61b1e6⟩ ⟨0x7f61b1e6⟩).bits = F32.canonNaN := by
  refine ⟨?_, ?_, ?_, ?_, ?_⟩ <;> decide +kernel

/-- The core-`Float32` model says the same (`toBits` canonicalises NaN). -/
example : (uniformF32 1 (Float32.ofBits 0xff61b1e6) (Float32.ofBits 0x7f61b1e6)).toBits = 0x7f800000 := by
  decide +kernel

end Retro.Props.C19
