/-
C19 — samples from the unit circle / sphere have unit length, for EVERY generator state.

1. `UnitSphere::sample` (rand.rs:401-404) normalises its first draw from the cube [-1,1)^3 without looking at
   it; `Vec::normalize` (vec.rs:140-148) multiplies by `recip_sqrt(len_sqr)` and has only a
   `debug_assert_ne!(len_sqr, 0.0)`.  A component is 0 exactly when the 23 mantissa bits taken from the
   generator output are `2^22`.  Three consecutive outputs with mantissa `2^22` are 69 GF(2)-linear equations
   on the 64 state bits; they are INCONSISTENT.  The certificate is the set `sphereCert` of 28 (output, bit)
   pairs: the XOR of those output bits is 0 for every state (`sphereCert_parity`, checked by the kernel on the
   64 basis states and extended by linearity), while the prescribed values XOR to 1.
   Hence `sphere_raw_nonzero`: for all 2^64 states the vector the sphere normalises is not the zero vector.
   (For the circle the analogous 46-equation system HAS solutions: `circle_zero_states`.)
2. Normalisation gives unit length, the normalisation factor being a parameter: over any field, with the
   contract of `sqrt` (`s * s = len²`, `normalize_div`) or of `recip_sqrt` (`r * r * len² = 1`,
   `normalize_recip`, the Rust form `v * r`); and over ℝ with `Real.sqrt` (`circle_unit_length`,
   `sphere_unit_length`).  Headline: `circle_sphere_unit`.
-/
import Retro.Model.Rand
import Retro.Lemmas.XorshiftParity
import Mathlib.Tactic.Linarith
import Mathlib.Tactic.NormNum
import Mathlib.Tactic.Ring
import Mathlib.Tactic.FieldSimp
import Mathlib.Algebra.Order.Field.Basic
import Mathlib.Algebra.Order.Ring.Rat
import Mathlib.Analysis.Real.Sqrt

namespace Retro.Props.C19
open Retro Retro.Rand Retro.Xorshift

/-! ### 1. The sphere never normalises the zero vector -/

/-- The inconsistency certificate: (output index `n`, bit `j`) pairs, `n ∈ {1,2,3}`, `41 ≤ j ≤ 63` (mantissa
bit `j - 41` of the `n`-th output).  Found outside Lean by Gaussian elimination over GF(2) on the 69 × 64 system
"mantissa of outputs 1, 2, 3 is 2^22" (rank 64, five dependent rows; this is the lightest of the 16 dependencies
with right-hand side 1).  Untrusted: only `sphereCert_basis` and `sphereCert_rhs` below are checked. -/
def sphereCert : List (Nat × Nat) :=
  [(1, 41), (1, 42), (1, 45), (1, 49), (1, 53), (1, 58), (1, 59), (1, 63),
   (2, 42), (2, 44), (2, 46), (2, 49), (2, 50), (2, 52), (2, 54), (2, 55), (2, 56), (2, 57), (2, 60), (2, 61),
   (2, 63),
   (3, 42), (3, 43), (3, 48), (3, 54), (3, 55), (3, 58), (3, 63)]

/-- Bit `j` (41 ≤ j ≤ 63) of an output whose mantissa is `2^22`: only the top bit is set. -/
def halfBit (p : Nat × Nat) : Bool := p.2 == 63

/-- Kernel check on the 64 basis states: the certificate's coefficient masks XOR to 0. -/
theorem sphereCert_basis : ∀ i < 64, par sphereCert (BitVec.twoPow 64 i) = false := by
  decide +kernel

/-- …while the right-hand sides XOR to 1. -/
theorem sphereCert_rhs : parOf halfBit sphereCert = true := by decide

theorem sphereCert_shape : ∀ p ∈ sphereCert, 1 ≤ p.1 ∧ p.1 ≤ 3 ∧ 41 ≤ p.2 ∧ p.2 < 64 := by decide

/-- Negative control: the check is not vacuous — dropping one pair from the certificate breaks it. -/
example : ¬ ∀ i < 64, par sphereCert.tail (BitVec.twoPow 64 i) = false := by decide +kernel

/-- For EVERY state the XOR of the 28 selected bits of the next three outputs is 0. -/
theorem sphereCert_parity (x : BitVec 64) : par sphereCert x = false :=
  par_eq_false_of_basis sphereCert sphereCert_basis x

/-- Bits of the literal `2^22`. -/
theorem half_bits : ∀ k < 23, (4194304#64).getLsbD k = (k == 22) := by decide

/-- An output with mantissa `2^22` has bit 63 set and bits 41…62 clear. -/
theorem bits_of_mant_half (s : BitVec 64) (h : mant s = 4194304) (j : Nat) (h1 : 41 ≤ j) (h2 : j < 64) :
    s.getLsbD j = (j == 63) := by
  have hs : s >>> 41 = 4194304#64 := BitVec.eq_of_toNat_eq (by rw [show (s >>> 41).toNat = mant s from rfl, h]; rfl)
  have hk := half_bits (j - 41) (by omega)
  rw [← hs, BitVec.getLsbD_ushiftRight, show 41 + (j - 41) = j by omega] at hk
  rw [hk]
  by_cases hj : j = 63
  · subst hj; rfl
  · have e1 : (j - 41 == 22) = false := by simp; omega
    have e2 : (j == 63) = false := by simp [hj]
    rw [e1, e2]

/-- **No generator state makes three consecutive float draws use the mantissa `2^22`.** -/
theorem no_three_half_mantissas (x : BitVec 64) :
    ¬ (mant (step x) = 4194304 ∧ mant (step (step x)) = 4194304 ∧ mant (step (step (step x))) = 4194304) := by
  rintro ⟨h1, h2, h3⟩
  have hbits : ∀ p ∈ sphereCert, bitAt x p = halfBit p := by
    intro p hp
    obtain ⟨a1, a2, b1, b2⟩ := sphereCert_shape p hp
    obtain ⟨n, j⟩ := p
    simp only at a1 a2 b1 b2
    have hn : n = 1 ∨ n = 2 ∨ n = 3 := by omega
    unfold bitAt halfBit
    rcases hn with rfl | rfl | rfl
    · exact bits_of_mant_half _ h1 j b1 b2
    · exact bits_of_mant_half _ h2 j b1 b2
    · exact bits_of_mant_half _ h3 j b1 b2
  have := par_eq_parOf halfBit sphereCert x hbits
  rw [sphereCert_parity, sphereCert_rhs] at this
  exact absurd this (by decide)

/-- A component drawn from [-1, 1) is 0 only for the mantissa `2^22`. -/
theorem component_zero_iff (m : Nat) : affine (unitRat m) (-1) 1 = 0 ↔ m = 4194304 := by
  unfold affine unitRat
  constructor
  · intro h
    have : (m : ℚ) = 4194304 := by linarith
    exact_mod_cast this
  · rintro rfl; norm_num

/-- What the sphere draws, spelled out: three components from three consecutive outputs. -/
theorem sphere_raw_eq (x : BitVec 64) :
    uniformRatList x (List.replicate 3 (-1, 1)) =
      ([affine (unitRat (mant (step x))) (-1) 1,
        affine (unitRat (mant (step (step x)))) (-1) 1,
        affine (unitRat (mant (step (step (step x))))) (-1) 1], step (step (step x))) := rfl

theorem lenSqr_three (a b c : ℚ) : lenSqr [a, b, c] = a * a + b * b + c * c := by
  simp [lenSqr]

theorem lenSqr_two (a b : ℚ) : lenSqr [a, b] = a * a + b * b := by
  simp [lenSqr]

/-- **For every one of the 2^64 generator states (0 included) the vector that `UnitSphere::sample` hands to
`normalize` is not the zero vector**: `recip_sqrt(len_sqr)` is never evaluated at 0 and the
`debug_assert_ne!(len_sqr, 0.0)` of `normalize` cannot fire from here. -/
theorem sphere_raw_nonzero (x : BitVec 64) :
    lenSqr (uniformRatList x (List.replicate 3 (-1, 1))).1 ≠ 0 := by
  rw [sphere_raw_eq, lenSqr_three]
  intro h
  apply no_three_half_mantissas x
  set a := affine (unitRat (mant (step x))) (-1) 1
  set b := affine (unitRat (mant (step (step x)))) (-1) 1
  set c := affine (unitRat (mant (step (step (step x))))) (-1) 1
  have ha := mul_self_nonneg a
  have hb := mul_self_nonneg b
  have hc := mul_self_nonneg c
  have ha0 : a = 0 := mul_self_eq_zero.mp (by linarith)
  have hb0 : b = 0 := mul_self_eq_zero.mp (by linarith)
  have hc0 : c = 0 := mul_self_eq_zero.mp (by linarith)
  exact ⟨(component_zero_iff _).mp ha0, (component_zero_iff _).mp hb0, (component_zero_iff _).mp hc0⟩

/-- Non-vacuity / sanity: the all-zero state gives the corner (−1, −1, −1), squared length 3. -/
example : (uniformRatList 0#64 (List.replicate 3 (-1, 1))).1 = [-1, -1, -1] ∧
    lenSqr (uniformRatList 0#64 (List.replicate 3 (-1, 1))).1 = 3 := by decide +kernel

/-- The two-output system of the circle, by contrast, HAS solutions (2^18 of them): this state gives
mantissa `2^22` twice, i.e. the draw (0, 0). That is why `UnitCircle::sample` needs its redraw loop
(/repo 66dde8c) and `UnitSphere::sample` does not. Two of three sphere components can vanish too. -/
theorem circle_zero_states :
    mant (step 0x00003588a4a5ef5e#64) = 4194304 ∧ mant (step (step 0x00003588a4a5ef5e#64)) = 4194304 ∧
    (uniformRatList 0x00003588a4a5ef5e#64 (List.replicate 2 (-1, 1))).1 = [0, 0] ∧
    (uniformRatList 0x00003588a4a5ef5e#64 (List.replicate 3 (-1, 1))).1.take 2 = [0, 0] := by
  decide +kernel

/-! ### 2. Normalisation gives unit length; the normalisation factor is a parameter -/

/-- Squared length over any scalar type: the same fold as `Rand.lenSqr`. -/
def lenSqrK {K : Type} [Zero K] [Add K] [Mul K] (v : List K) : K := v.foldl (fun acc x => acc + x * x) 0

theorem lenSqr_eq_lenSqrK (v : List ℚ) : lenSqr v = lenSqrK v := rfl

theorem foldl_sq_scale {K : Type} [CommSemiring K] (r a : K) (v : List K) :
    (v.map (· * r)).foldl (fun acc x => acc + x * x) (a * (r * r)) =
      v.foldl (fun acc x => acc + x * x) a * (r * r) := by
  induction v generalizing a with
  | nil => rfl
  | cons x v ih =>
    simp only [List.map_cons, List.foldl_cons]
    rw [show a * (r * r) + x * r * (x * r) = (a + x * x) * (r * r) by ring]
    exact ih _

/-- Scaling every component by `r` scales the squared length by `r²`. -/
theorem lenSqrK_map_mul {K : Type} [CommSemiring K] (r : K) (v : List K) :
    lenSqrK (v.map (· * r)) = lenSqrK v * (r * r) := by
  have := foldl_sq_scale r 0 v
  rw [zero_mul] at this
  exact this

/-- **Rust form** (`*self * recip_sqrt(len_sqr)`, vec.rs:147): whatever `recip_sqrt` is, if its result `r`
satisfies `r · r · len² = 1`, the product has squared length exactly 1. -/
theorem normalize_recip {K : Type} [CommSemiring K] (v : List K) (r : K) (hr : r * r * lenSqrK v = 1) :
    lenSqrK (v.map (· * r)) = 1 := by
  rw [lenSqrK_map_mul, mul_comm]; exact hr

/-- The contract of `recip_sqrt` cannot be met at the zero vector: that is the case the sphere must
(and, by `sphere_raw_nonzero`, does) avoid. -/
theorem recip_contract_needs_nonzero {K : Type} [CommSemiring K] [Nontrivial K] (v : List K) (r : K)
    (hr : r * r * lenSqrK v = 1) : lenSqrK v ≠ 0 := by
  intro h; rw [h, mul_zero] at hr; exact zero_ne_one hr

/-- **Division form**: whatever `sqrt` is, if `s · s = len²` and `len² ≠ 0`, dividing by `s` gives squared
length exactly 1. -/
theorem normalize_div {K : Type} [Field K] (v : List K) (s : K) (hs : s * s = lenSqrK v)
    (hv : lenSqrK v ≠ 0) : lenSqrK (v.map (· / s)) = 1 := by
  have hs0 : s ≠ 0 := by
    rintro rfl; rw [mul_zero] at hs; exact hv hs.symm
  have : (fun x : K => x / s) = (· * s⁻¹) := by funext x; exact div_eq_mul_inv x s
  rw [this]
  apply normalize_recip
  rw [← hs]; field_simp

example : lenSqrK ([3, 4].map (· / (5 : ℚ))) = 1 := normalize_div [3, 4] 5 (by decide +kernel) (by decide +kernel)
example : lenSqrK ([3, 4].map (· * (1 / 5 : ℚ))) = 1 := normalize_recip [3, 4] (1 / 5) (by decide +kernel)

/-! #### Over ℝ with `Real.sqrt` -/

theorem foldl_sq_cast (a : ℚ) (v : List ℚ) :
    (v.map (fun q : ℚ => (q : ℝ))).foldl (fun acc x => acc + x * x) (a : ℝ) =
      ((v.foldl (fun acc x => acc + x * x) a : ℚ) : ℝ) := by
  induction v generalizing a with
  | nil => rfl
  | cons x v ih =>
    simp only [List.map_cons, List.foldl_cons]
    rw [← ih]; push_cast; rfl

/-- Casting the components to ℝ casts the squared length. -/
theorem lenSqrK_cast (v : List ℚ) : lenSqrK (v.map (fun q : ℚ => (q : ℝ))) = ((lenSqr v : ℚ) : ℝ) := by
  have := foldl_sq_cast 0 v
  rw [Rat.cast_zero] at this
  exact this

theorem foldl_sq_nonneg (a : ℚ) (ha : 0 ≤ a) (v : List ℚ) : 0 ≤ v.foldl (fun acc x => acc + x * x) a := by
  induction v generalizing a with
  | nil => exact ha
  | cons x v ih => exact ih _ (by have := mul_self_nonneg x; simp only; linarith)

theorem lenSqr_nonneg (v : List ℚ) : 0 ≤ lenSqr v := foldl_sq_nonneg 0 le_rfl v

/-- A non-zero rational vector, cast to ℝ and divided by `Real.sqrt` of its squared length — or multiplied by
the reciprocal square root, as the Rust code does — has squared length exactly 1. -/
theorem real_normalize (v : List ℚ) (hv : lenSqr v ≠ 0) :
    lenSqrK (v.map (fun q : ℚ => (q : ℝ) / Real.sqrt (lenSqr v))) = 1 ∧
    lenSqrK (v.map (fun q : ℚ => (q : ℝ) * (Real.sqrt (lenSqr v))⁻¹)) = 1 := by
  have h0 : (0 : ℝ) ≤ ((lenSqr v : ℚ) : ℝ) := by exact_mod_cast lenSqr_nonneg v
  have hne : ((lenSqr v : ℚ) : ℝ) ≠ 0 := by exact_mod_cast hv
  have hs : Real.sqrt (lenSqr v) * Real.sqrt (lenSqr v) = lenSqrK (v.map (fun q : ℚ => (q : ℝ))) := by
    rw [lenSqrK_cast]; exact Real.mul_self_sqrt h0
  have hd := normalize_div (v.map (fun q : ℚ => (q : ℝ))) (Real.sqrt (lenSqr v)) hs (by rw [lenSqrK_cast]; exact hne)
  rw [List.map_map] at hd
  refine ⟨hd, ?_⟩
  have : (fun q : ℚ => (q : ℝ) * (Real.sqrt (lenSqr v))⁻¹) = (fun x : ℝ => x / Real.sqrt (lenSqr v)) ∘ (fun q : ℚ => (q : ℝ)) := by
    funext q; exact (div_eq_mul_inv _ _).symm
  rw [this]; exact hd

/-- The exit condition of `UnitCircle`'s redraw loop (same statement as `circleRaw_nonzero` in `Props/C19.lean`,
which imports this file). -/
theorem circleRaw_lenSqr_ne_zero (fuel : Nat) (s : BitVec 64) (v : List ℚ) (s' : BitVec 64)
    (h : circleRaw fuel s = some (v, s')) : lenSqr v ≠ 0 := by
  induction fuel generalizing s with
  | zero => simp [circleRaw] at h
  | succ n ih =>
    unfold circleRaw at h
    simp only at h
    split at h
    · exact ih _ h
    · rename_i hne
      injection h with h; injection h with hv _; subst hv; exact hne

/-- **Unit circle**: every vector returned by the redraw loop (any fuel, any state), normalised with the real
square root, has squared length exactly 1. -/
theorem circle_unit_length (fuel : Nat) (s : BitVec 64) (v : List ℚ) (s' : BitVec 64)
    (h : circleRaw fuel s = some (v, s')) :
    lenSqrK (v.map (fun q : ℚ => (q : ℝ) / Real.sqrt (lenSqr v))) = 1 ∧
    lenSqrK (v.map (fun q : ℚ => (q : ℝ) * (Real.sqrt (lenSqr v))⁻¹)) = 1 :=
  real_normalize v (circleRaw_lenSqr_ne_zero fuel s v s' h)

/-- Non-vacuity: the loop does return, on the first draw for state 1, on the second for the zero-draw state. -/
example : (circleRaw 1 1#64).isSome = true ∧ (circleRaw 1 0x00003588a4a5ef5e#64).isSome = false ∧
    (circleRaw 2 0x00003588a4a5ef5e#64).isSome = true := by decide +kernel

/-- **Unit sphere**: for EVERY generator state the sphere's raw draw, normalised with the real square root
(division form and the Rust reciprocal form), has squared length exactly 1. No hypothesis. -/
theorem sphere_unit_length (x : BitVec 64) :
    lenSqrK ((uniformRatList x (List.replicate 3 (-1, 1))).1.map
      (fun q : ℚ => (q : ℝ) / Real.sqrt (lenSqr (uniformRatList x (List.replicate 3 (-1, 1))).1))) = 1 ∧
    lenSqrK ((uniformRatList x (List.replicate 3 (-1, 1))).1.map
      (fun q : ℚ => (q : ℝ) * (Real.sqrt (lenSqr (uniformRatList x (List.replicate 3 (-1, 1))).1))⁻¹)) = 1 :=
  real_normalize _ (sphere_raw_nonzero x)

/-- **Headline.** Circle: whatever the loop returns is non-zero and normalises to unit length. Sphere: for all
2^64 states the single draw is non-zero and normalises to unit length. (Exact real arithmetic; the `f32`
rounding of `recip_sqrt` and of the products is what the oracle's 1e-3 tolerance on the implementation's output
covers.) -/
theorem circle_sphere_unit :
    (∀ (fuel : Nat) (s : BitVec 64) (v : List ℚ) (s' : BitVec 64), circleRaw fuel s = some (v, s') →
      lenSqr v ≠ 0 ∧ lenSqrK (v.map (fun q : ℚ => (q : ℝ) * (Real.sqrt (lenSqr v))⁻¹)) = 1) ∧
    (∀ x : BitVec 64,
      lenSqr (uniformRatList x (List.replicate 3 (-1, 1))).1 ≠ 0 ∧
      lenSqrK ((uniformRatList x (List.replicate 3 (-1, 1))).1.map
        (fun q : ℚ => (q : ℝ) * (Real.sqrt (lenSqr (uniformRatList x (List.replicate 3 (-1, 1))).1))⁻¹)) = 1) :=
  ⟨fun fuel s v s' h => ⟨circleRaw_lenSqr_ne_zero fuel s v s' h, (circle_unit_length fuel s v s' h).2⟩,
   fun x => ⟨sphere_raw_nonzero x, (sphere_unit_length x).2⟩⟩

end Retro.Props.C19
