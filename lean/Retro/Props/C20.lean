/-
C20 — float helper back ends agree with std across their whole domain.

Theorems about the model functions of `Retro.Model.FloatFallback` that the driver `drv_c20` runs.
The exact functions (`abs`, `floor`, `rem_euclid`, the two `round_up_to_half` variants) are settled for
*every* bit pattern by reasoning on the decoded value; the Newton refinement of `recip_sqrt` is an
identity over any field.  What cannot be proved here — agreement of sin/cos/tan/asin/acos/atan2/
sqrt/powf/exp between libm, micromath and std — is covered only by the sweep (design/C20.md).
-/
import Retro.Model.FloatFallback
import Retro.Model.Tex
import Retro.Lemmas.FloatFallback
import Retro.Spec.FloatSpec
import Mathlib.Tactic.FieldSimp
import Mathlib.Tactic.Positivity
import Mathlib.Tactic.NormNum
import Mathlib.Algebra.Order.Field.Basic

namespace Retro.Props.C20
open Retro Retro.F32 Retro.FloatFallback

/-! ### `fallback::abs` -/

/-- **fallback_abs_exact.** For every bit pattern: the sign bit is cleared, exponent and mantissa
fields are untouched; hence a finite `x` maps to exactly `|x|`, ±∞ to +∞ and a NaN stays a NaN. -/
theorem fallback_abs_exact (b : UInt32) :
    signBit (abs b) = false ∧ expField (abs b) = expField b ∧ manField (abs b) = manField b ∧
    (∀ q, toRat? b = some q → toRat? (abs b) = some |q|) ∧
    (isInf b = true → abs b = posInf) ∧ isNaN (abs b) = isNaN b := by
  refine ⟨signBit_abs b, expField_abs b, manField_abs b, fun q h => toRat?_abs h, ?_, isNaN_abs b⟩
  intro hinf
  unfold isInf at hinf
  simp only [Bool.and_eq_true, beq_iff_eq] at hinf
  have hp := pack_fields (abs b)
  rw [signBit_abs, expField_abs, manField_abs, hinf.1, hinf.2] at hp
  rw [← hp]; decide

example : FloatFallback.abs 0xC0490FDB = 0x40490FDB := by decide   -- |−π| = π

/-! ### `fallback::floor` -/

theorem toRat?_two23 : toRat? two23 = some 8388608 := by decide +kernel

/-- non-finite inputs take the early return -/
theorem floor_none {x : UInt32} (h : toRat? x = none) : FloatFallback.floor x = x := by
  unfold FloatFallback.floor
  have hlt : lt (abs x) two23 = false := by
    unfold lt
    by_cases hn : isNaN (abs x) = true
    · simp [hn]
    · have hn' : isNaN (abs x) = false := by simpa using hn
      rw [hn', toRat?_abs_none h, toRat?_two23, signBit_abs]
      simp [isNaN_eq_false_of_some toRat?_two23]
  rw [hlt]; rfl

/-- `x as i32` of a value below `2^23` in magnitude is its truncation -/
theorem toI32Sat_small {x : UInt32} {q : ℚ} (h : toRat? x = some q) (hq : |q| < 8388608) :
    toI32Sat x = ratTrunc q := by
  unfold toI32Sat
  rw [toIntSat_finite h]
  have hb := abs_ratTrunc_le q
  have h1 : |((ratTrunc q : ℤ) : ℚ)| < 8388608 := lt_of_le_of_lt hb hq
  rw [← Int.cast_abs] at h1
  have h2 : |ratTrunc q| < 8388608 := by exact_mod_cast h1
  have := abs_lt.1 h2
  unfold pow31
  rw [if_neg (by omega), if_neg (by omega)]

/-- **fallback_floor_exact.** For *every* bit pattern the repaired `fallback::floor` returns the very
same bits as the exact `f32::floor` of the model (`F32.floor`): the mathematical floor for finite
inputs (see `F32.floor_value`), NaN and ±∞ unchanged, `−0.0 ↦ −0.0`. -/
theorem fallback_floor_exact (x : UInt32) : FloatFallback.floor x = F32.floor x := by
  cases h : toRat? x with
  | none => rw [floor_none h, F32.floor_of_none h]
  | some q =>
    have hrep := rep_of_toRat? h
    unfold FloatFallback.floor F32.floor
    rw [h, lt_finite (toRat?_abs h) toRat?_two23]
    dsimp only
    by_cases hbig : |q| < 8388608
    · -- |x| < 2^23: truncate and adjust
      have hti := toI32Sat_small h hbig
      set t : ℤ := ratTrunc q with ht
      have htabs : |t| ≤ 2 ^ 24 := by
        have hb := abs_ratTrunc_le q
        have h1 : |((t : ℤ) : ℚ)| < 8388608 := lt_of_le_of_lt hb hbig
        rw [← Int.cast_abs] at h1
        have h2 : |t| < 8388608 := by exact_mod_cast h1
        omega
      have htr : toRat? (intToF32 t) = some (t : ℚ) := toRat?_intToF32 htabs
      simp only [hbig, decide_true, Bool.not_true, Bool.false_eq_true, ↓reduceIte, hti]
      rw [gt, lt_finite h htr, feq_finite htr h]
      by_cases hlt : q < (t : ℚ)
      · -- negative non-integer: floor = trunc − 1
        simp only [hlt, decide_true, ↓reduceIte]
        have hneg : q < 0 := by
          by_contra hnn
          have := ((ratTrunc_bounds q).1 (not_lt.1 hnn)).1
          linarith
        obtain ⟨hb1, -, hb3⟩ := (ratTrunc_bounds q).2 hneg
        have hfl : ⌊q⌋ = t - 1 := by
          rw [Int.floor_eq_iff]; push_cast
          constructor <;> linarith
        have hfl' : q.floor = t - 1 := hfl
        have hne : (q.floor == 0) = false := by
          rw [hfl']; simp; omega
        rw [hne]
        simp only [Bool.false_eq_true, ↓reduceIte]
        -- trunc − 1.0 is the exact difference
        unfold sub add
        rw [isNaN_eq_false_of_some htr, isNaN_eq_false_of_some toRat?_neg_one, htr, toRat?_neg_one]
        have hsum : ((t : ℚ) + -1 == 0) = false := by
          have : (t : ℚ) + -1 ≠ 0 := by
            have : ((t : ℤ) : ℚ) ≤ 0 := by exact_mod_cast hb3
            linarith
          simpa using this
        simp only [Bool.or_self, Bool.false_eq_true, ↓reduceIte, hsum]
        rw [hfl']; push_cast; ring_nf
      · simp only [hlt, decide_false, Bool.false_eq_true, ↓reduceIte]
        by_cases heq : (t : ℚ) = q
        · -- already integral: `x` itself (keeps −0.0)
          simp only [heq, decide_true, ↓reduceIte]
          have hfl : q.floor = t := by
            show ⌊q⌋ = t
            rw [← heq, Int.floor_intCast]
          by_cases ht0 : t = 0
          · have hq0 : q = 0 := by rw [← heq, ht0]; simp
            rw [hfl, ht0]
            simp only [beq_self_eq_true, ↓reduceIte]
            rw [hq0] at h
            exact (and_signMask_of_zero h).symm
          · have hne : (q.floor == 0) = false := by rw [hfl]; simpa using ht0
            rw [hne]
            simp only [Bool.false_eq_true, ↓reduceIte]
            have hq0 : q ≠ 0 := by
              rw [← heq]; exact_mod_cast ht0
            rw [hfl, heq]
            exact (ofRat_toRat? h hq0).symm
        · -- positive non-integer: floor = trunc
          simp only [heq, decide_false, Bool.false_eq_true, ↓reduceIte]
          have hgt : (t : ℚ) < q := lt_of_le_of_ne (not_lt.1 hlt) heq
          have hnn : 0 ≤ q := by
            by_contra hneg
            have := ((ratTrunc_bounds q).2 (not_le.1 hneg)).2.1
            linarith
          have hfl : q.floor = t := by rw [ht, ratTrunc_nonneg hnn]; rfl
          by_cases ht0 : t = 0
          · rw [hfl, ht0]
            simp only [beq_self_eq_true, ↓reduceIte]
            have hpos : 0 < q := by rw [ht0] at hgt; simpa using hgt
            rw [and_signMask_of_signBit_false (signBit_false_of_pos h hpos)]
            unfold intToF32; simp [ofRat_zero]
          · have hne : (q.floor == 0) = false := by rw [hfl]; simpa using ht0
            rw [hne, hfl]
            simp only [Bool.false_eq_true, ↓reduceIte]
            rfl
    · -- |x| ≥ 2^23: already an integer, returned unchanged
      simp only [hbig, decide_false, Bool.not_false, ↓reduceIte]
      have hge : (2 : ℚ) ^ 23 ≤ |q| := by
        have : (8388608 : ℚ) = 2 ^ 23 := by norm_num
        rw [← this]; exact not_lt.1 hbig
      obtain ⟨z, hz⟩ := rep_int_of_large hrep hge
      have hfl : q.floor = z := by
        show ⌊q⌋ = z
        rw [hz, Int.floor_intCast]
      have hq0 : q ≠ 0 := by
        intro h0; rw [h0] at hge; norm_num at hge
      have hz0 : z ≠ 0 := by
        intro h0; rw [h0] at hz; exact hq0 (by rw [hz]; simp)
      have hne : (q.floor == 0) = false := by rw [hfl]; simpa using hz0
      rw [hne, hfl, ← hz]
      simp only [Bool.false_eq_true, ↓reduceIte]
      exact (ofRat_toRat? h hq0).symm

/-- Corollary: value-level statement of exactness. -/
theorem fallback_floor_value {x : UInt32} {q : ℚ} (h : toRat? x = some q) :
    toRat? (FloatFallback.floor x) = some ((⌊q⌋ : ℤ) : ℚ) := by
  rw [fallback_floor_exact]; exact floor_value h

-- the three witnesses of the repaired defect D11, now theorems about the current code
example : FloatFallback.floor 0xC0000000 = 0xC0000000 := by decide +kernel   -- floor(−2.0) = −2.0
example : FloatFallback.floor 0x80000000 = 0x80000000 := by decide +kernel   -- floor(−0.0) = −0.0
example : FloatFallback.floor 0x7149F2CA = 0x7149F2CA := by decide +kernel   -- floor(1e30) = 1e30

/-! ### micromath's `floor` (the `mm` back end) -/

/-- Within the `i32` range micromath's own truncate-and-adjust `floor` returns the mathematical
floor. -/
theorem mm_floor_raw_exact {x : UInt32} {q : ℚ} (h : toRat? x = some q) (hq : |q| < 2 ^ 31) :
    toRat? (mmFloorRaw x) = some ((⌊q⌋ : ℤ) : ℚ) := by
  have hrep := rep_of_toRat? h
  unfold mmFloorRaw
  -- t = trunc q, no saturation
  have hb := abs_ratTrunc_le q
  have hti : toI32Sat x = ratTrunc q := by
    unfold toI32Sat
    rw [toIntSat_finite h]
    have h1 : |((ratTrunc q : ℤ) : ℚ)| < 2 ^ 31 := lt_of_le_of_lt hb hq
    rw [← Int.cast_abs] at h1
    have h2 : |ratTrunc q| < 2 ^ 31 := by exact_mod_cast h1
    have := abs_lt.1 h2
    unfold pow31
    rw [if_neg (by omega), if_neg (by omega)]
  set t : ℤ := ratTrunc q with ht
  -- (t : ℚ) is representable: it is ⌊q⌋ or ⌊q⌋ + 1 … simpler: t = ±⌊±q⌋
  have hrt : Rep ((t : ℤ) : ℚ) := by
    rcases le_or_gt 0 q with hnn | hneg
    · rw [ht, ratTrunc_nonneg hnn]; exact rep_floor hrep
    · rw [ht, ratTrunc_neg hneg]
      have : Rep (((⌊-q⌋ : ℤ) : ℚ)) := rep_floor (Rep.neg hrep)
      have h2 := Rep.neg this
      push_cast; exact h2
  have htr : toRat? (intToF32 t) = some (t : ℚ) := toRat?_ofRat hrt
  rw [hti]
  dsimp only
  rw [lt_finite h htr]
  by_cases hlt : q < (t : ℚ)
  · simp only [hlt, decide_true, ↓reduceIte]
    have hneg : q < 0 := by
      by_contra hnn
      have := ((ratTrunc_bounds q).1 (not_lt.1 hnn)).1
      linarith
    obtain ⟨hb1, -, -⟩ := (ratTrunc_bounds q).2 hneg
    have hfl : ⌊q⌋ = t - 1 := by
      rw [Int.floor_eq_iff]; push_cast
      constructor <;> linarith
    have hr1 : Rep ((t : ℚ) - 1) := by
      have := rep_floor hrep
      rw [hfl] at this; push_cast at this; exact this
    rw [sub_one_exact htr hr1, hfl]; push_cast; rfl
  · simp only [hlt, decide_false, Bool.false_eq_true, ↓reduceIte]
    rw [htr]
    have hfl : ⌊q⌋ = t := by
      rcases le_or_gt 0 q with hnn | hneg
      · rw [ht, ratTrunc_nonneg hnn]
      · obtain ⟨-, hb2, -⟩ := (ratTrunc_bounds q).2 hneg
        have : q = (t : ℚ) := le_antisymm hb2 (not_lt.1 hlt)
        rw [this, Int.floor_intCast]
    rw [hfl]

/-- Beyond the `i32` range micromath's own `floor` saturates: `floor(2^32) = 2^31` – the reason for
the guard in the adapter (fixed defect `mm-floor-saturates`). -/
theorem mm_floor_raw_saturates :
    toRat? 0x4F800000 = some 4294967296 ∧ toRat? (mmFloorRaw 0x4F800000) = some 2147483648 ∧
    mmFloor 0x4F800000 = 0x4F800000 := by
  decide +kernel

/-- the guard of `mm::floor`, as for `fallback::floor` -/
theorem mm_guard_none {x : UInt32} (h : toRat? x = none) : lt (abs x) two23 = false := by
  unfold lt
  by_cases hn : isNaN (abs x) = true
  · simp [hn]
  · have hn' : isNaN (abs x) = false := by simpa using hn
    rw [hn', toRat?_abs_none h, toRat?_two23, signBit_abs]
    simp [isNaN_eq_false_of_some toRat?_two23]

/-- NaN and ±∞ pass through the guarded `mm::floor` unchanged. -/
theorem mm_floor_nonfinite {x : UInt32} (h : toRat? x = none) : mmFloor x = x := by
  unfold mmFloor; rw [mm_guard_none h]; rfl

/-- **mm_floor_exact.** After fix 7bf834c the `mm` back end's `floor` returns the mathematical floor
for *every* finite input (and NaN / ±∞ unchanged, `mm_floor_nonfinite`): below `2^23` micromath's
truncate-and-adjust is exact, from `2^23` on the value is already an integer and is returned as is. -/
theorem mm_floor_exact {x : UInt32} {q : ℚ} (h : toRat? x = some q) :
    toRat? (mmFloor x) = some ((⌊q⌋ : ℤ) : ℚ) := by
  unfold mmFloor
  rw [lt_finite (toRat?_abs h) toRat?_two23]
  by_cases hbig : |q| < 8388608
  · simp only [hbig, decide_true, Bool.not_true, Bool.false_eq_true, ↓reduceIte]
    exact mm_floor_raw_exact h (lt_trans hbig (by norm_num))
  · simp only [hbig, decide_false, Bool.not_false, ↓reduceIte]
    have hge : (2 : ℚ) ^ 23 ≤ |q| := by
      have : (8388608 : ℚ) = 2 ^ 23 := by norm_num
      rw [← this]; exact not_lt.1 hbig
    obtain ⟨z, hz⟩ := rep_int_of_large (rep_of_toRat? h) hge
    rw [h, hz, Int.floor_intCast]

/-- The guarded `mm::floor` has the same value as the exact floor on every bit pattern. -/
theorem mm_floor_same_value (x : UInt32) :
    toRat? (mmFloor x) = toRat? (F32.floor x) ∧ (toRat? x = none → mmFloor x = F32.floor x) := by
  cases h : toRat? x with
  | none => exact ⟨by rw [mm_floor_nonfinite h, F32.floor_of_none h], fun _ => by
      rw [mm_floor_nonfinite h, F32.floor_of_none h]⟩
  | some q => exact ⟨by rw [mm_floor_exact h, floor_value h], fun hn => by cases hn⟩

example : toRat? 0xC0200000 = some (-5/2) ∧ toRat? (mmFloor 0xC0200000) = some (-3) := by decide +kernel
example : mmFloor 0x7149F2CA = 0x7149F2CA ∧ mmFloor 0x7FC00000 = 0x7FC00000 := by decide +kernel   -- 1e30, NaN

/-! ### `rem_euclid` -/

/-- The float `%` is exact: for finite `x` and finite non-zero `m` the model's `rem` decodes to
`x − trunc(x/m)·m`, which is smaller than `|m|` and no larger than `|x|` in magnitude. -/
theorem rem_exact {x m : UInt32} {xv mv : ℚ} (hx : toRat? x = some xv) (hm : toRat? m = some mv)
    (hm0 : mv ≠ 0) :
    toRat? (rem x m) = some (xv - ((ratTrunc (xv / mv) : ℤ) : ℚ) * mv) := by
  obtain ⟨hrep, -, -⟩ := rep_fmod (rep_of_toRat? hx) (rep_of_toRat? hm) hm0
  unfold rem
  rw [isNaN_eq_false_of_some hx, isNaN_eq_false_of_some hm, hx, hm]
  have : (mv == 0) = false := by simpa using hm0
  simp only [Bool.or_self, Bool.false_eq_true, ↓reduceIte, this]
  split
  · rename_i h0
    rw [toRat?_and_signMask]
    have : xv - ((ratTrunc (xv / mv) : ℤ) : ℚ) * mv = 0 := by simpa using h0
    rw [this]
  · exact toRat?_ofRat hrep

/-- `x % m` is a NaN (the canonical one of the model) or a finite value – never an infinity. -/
theorem rem_cases (x m : UInt32) : rem x m = canonNaN ∨ ∃ ρ, toRat? (rem x m) = some ρ := by
  unfold rem
  by_cases hn : (isNaN x || isNaN m) = true
  · left; simp [hn]
  · simp only [hn, Bool.false_eq_true, ↓reduceIte]
    cases hx : toRat? x with
    | none => left; rfl
    | some xv =>
      cases hm : toRat? m with
      | none => right; exact ⟨xv, hx⟩
      | some mv =>
        dsimp only
        by_cases h0 : (mv == 0) = true
        · left; simp [h0]
        · simp only [h0, Bool.false_eq_true, ↓reduceIte]
          split
          · right; exact ⟨0, toRat?_and_signMask x⟩
          · right
            have hm0 : mv ≠ 0 := by simpa using h0
            exact ⟨_, toRat?_ofRat (rep_fmod (rep_of_toRat? hx) (rep_of_toRat? hm) hm0).1⟩

/-- **fallback_rem_euclid_eq_std_algorithm.** Since fix e9e07c1 `fallback::rem_euclid` (and with it the
libm back end's) is bit for bit the standard library's formula, for every pair of bit patterns. -/
theorem fallback_rem_euclid_eq_std_algorithm (x m : UInt32) : remEuclid x m = F32.remEuclidStd x m := rfl

/-- micromath's variant `if r >= 0 { r } else { r + |m| }` returns the same bits as well (the two tests
differ only when `r` is NaN, and then both results are the NaN). -/
theorem mm_rem_euclid_eq_std_algorithm (x m : UInt32) : mmRemEuclid x m = remEuclid x m := by
  unfold mmRemEuclid remEuclid
  dsimp only
  rcases rem_cases x m with hnan | ⟨ρ, hρ⟩
  · rw [hnan]
    have hn : isNaN canonNaN = true := by decide
    have h1 : le 0 canonNaN = false := by
      unfold le feq; rw [lt_nan_right hn]; simp [hn]
    have h2 : lt canonNaN 0 = false := lt_nan_left hn
    have h3 : add canonNaN (FloatFallback.abs m) = canonNaN := by unfold add; simp [hn]
    rw [h1, h2, h3]
  · rw [le_finite toRat?_zero hρ, lt_finite hρ toRat?_zero]
    by_cases h : ρ < 0
    · simp [h, not_le.2 h]
    · simp [h, not_lt.1 h]

/-- **fallback_rem_euclid_spec.** Domain stated explicitly: `x` finite, `m` finite and **non-zero, of
either sign** (std's semantics: the result is taken modulo `|m|`).  With `ρ = x − trunc(x/m)·m` the exact
value of `x % m` (`|ρ| < |m|`, `x − ρ ∈ m·ℤ`):
* if `ρ ≥ 0` (this includes the remainder −0.0 of a negative multiple of `m`) the result **is** `ρ`:
  exactly the least non-negative remainder, `0 ≤ r < |m|`, no rounding at all;
* if `ρ < 0` the result is the binary32 value nearest to the exact `ρ + |m| ∈ (0, |m|)`, which is
  congruent to `x`; being correctly rounded between the representable anchors `0` and `|m|` it lies in
  `[0, |m|]` (the single rounding is the only inexact step; `|m|` itself results only when `|ρ|` is
  below half an ulp of `|m|`). -/
theorem fallback_rem_euclid_spec {x m : UInt32} {xv mv : ℚ} (hx : toRat? x = some xv)
    (hm : toRat? m = some mv) (hm0 : mv ≠ 0) :
    ∃ ρ r : ℚ, toRat? (rem x m) = some ρ ∧ (∃ k : ℤ, xv - ρ = (k : ℚ) * mv) ∧ |ρ| < |mv| ∧
      toRat? (remEuclid x m) = some r ∧ 0 ≤ r ∧ r ≤ |mv| ∧
      (0 ≤ ρ → r = ρ ∧ r < |mv|) ∧
      (ρ < 0 → (∃ k : ℤ, xv - (ρ + |mv|) = (k : ℚ) * mv) ∧
        ∀ s : ℚ, Rep s → |r - (ρ + |mv|)| ≤ |s - (ρ + |mv|)|) := by
  have hrem := rem_exact hx hm hm0
  obtain ⟨hrep, hlt, -⟩ := rep_fmod (rep_of_toRat? hx) (rep_of_toRat? hm) hm0
  obtain ⟨ρ, hρ⟩ : ∃ ρ : ℚ, ρ = xv - ((ratTrunc (xv / mv) : ℤ) : ℚ) * mv := ⟨_, rfl⟩
  rw [← hρ] at hrem hrep hlt
  have hmabs : 0 < |mv| := abs_pos.2 hm0
  have hcong : ∃ k : ℤ, xv - ρ = (k : ℚ) * mv := ⟨ratTrunc (xv / mv), by rw [hρ]; ring⟩
  by_cases hnn : 0 ≤ ρ
  · have hρlt : ρ < |mv| := lt_of_le_of_lt (le_abs_self ρ) hlt
    refine ⟨ρ, ρ, hrem, hcong, hlt, ?_, hnn, le_of_lt hρlt, fun _ => ⟨rfl, hρlt⟩,
      fun h => absurd hnn (not_le.2 h)⟩
    unfold remEuclid; dsimp only
    rw [lt_finite hrem toRat?_zero]
    simp only [not_lt.2 hnn, decide_false, Bool.false_eq_true, ↓reduceIte]
    exact hrem
  · have hneg : ρ < 0 := not_le.1 hnn
    have hρlo : -|mv| < ρ := (abs_lt.1 hlt).1
    have habs : toRat? (FloatFallback.abs m) = some |mv| := toRat?_abs hm
    have hrabs : Rep |mv| := rep_of_toRat? habs
    have hsum_pos : 0 < ρ + |mv| := by linarith
    have hsum_le : ρ + |mv| ≤ |mv| := by linarith
    have hthr : abs (ρ + abs mv) < (2 : ℚ) ^ 128 - (2 : ℚ) ^ 103 := by
      rw [abs_of_pos hsum_pos]
      have h1 := rep_abs_le hrabs
      rw [abs_abs] at h1
      have : (2 : ℚ) ^ 128 - (2 : ℚ) ^ 104 < (2 : ℚ) ^ 128 - (2 : ℚ) ^ 103 := by norm_num
      linarith
    obtain ⟨v, hv, -, hnear⟩ := ofRat_nearest hthr
    obtain ⟨v', hv', hv0, hvm⟩ := ofRat_between Rep.zero hrabs (le_of_lt hsum_pos) hsum_le
    have hvv : v' = v := by rw [hv] at hv'; exact (Option.some.inj hv').symm
    -- ρ + |m| is congruent to x as well
    have hcong' : ∃ k : ℤ, xv - (ρ + |mv|) = (k : ℚ) * mv := by
      obtain ⟨k, hk⟩ := hcong
      rcases abs_cases mv with ⟨ha, _⟩ | ⟨ha, _⟩
      · exact ⟨k - 1, by rw [ha]; push_cast; linarith⟩
      · exact ⟨k + 1, by rw [ha]; push_cast; linarith⟩
    refine ⟨ρ, v, hrem, hcong, hlt, ?_, by rw [← hvv]; exact hv0, by rw [← hvv]; exact hvm,
      fun h => absurd h hnn, fun _ => ⟨hcong', hnear⟩⟩
    unfold remEuclid; dsimp only
    rw [lt_finite hrem toRat?_zero]
    simp only [hneg, decide_true, ↓reduceIte]
    unfold add
    rw [isNaN_eq_false_of_some hrem, isNaN_eq_false_of_some habs, hrem, habs]
    have : (ρ + |mv| == 0) = false := by simpa using ne_of_gt hsum_pos
    simp only [Bool.or_self, Bool.false_eq_true, ↓reduceIte, this]
    exact hv

/-- Same statement for the `mm` back end (micromath's variant returns the same bits). -/
theorem mm_rem_euclid_spec {x m : UInt32} {xv mv : ℚ} (hx : toRat? x = some xv)
    (hm : toRat? m = some mv) (hm0 : mv ≠ 0) :
    ∃ r : ℚ, toRat? (mmRemEuclid x m) = some r ∧ 0 ≤ r ∧ r ≤ |mv| := by
  rw [mm_rem_euclid_eq_std_algorithm]
  obtain ⟨_, r, _, _, _, hr, h0, h1, _, _⟩ := fallback_rem_euclid_spec hx hm hm0
  exact ⟨r, hr, h0, h1⟩

-- hypotheses are satisfiable; the cases the pre-fix formula got wrong:
-- rem_euclid(−4, 4) = −0.0 (value 0, not 4); rem_euclid(−0.0, 4) = −0.0; rem_euclid(−1, −4) = 3
example : remEuclid 0xC0800000 0x40800000 = 0x80000000 := by decide +kernel
example : remEuclid 0x80000000 0x40800000 = 0x80000000 := by decide +kernel
example : remEuclid 0xBF800000 0xC0800000 = 0x40400000 := by decide +kernel
example : remEuclid 0xBF9D70A4 0x40800000 = 0x403147AE := by decide +kernel   -- rem_euclid(−1.23, 4) = 2.77
example : mmRemEuclid 0xC0E00000 0x40800000 = 0x3F800000 := by decide +kernel   -- (−7) rem_euclid 4 = 1

/-- The repaired defect (e9e07c1): the old formula `x % m + (sign_negative as f32)·m` returned `m` for
negative multiples of `m` and for −0.0, and a negative value for negative `m`. -/
theorem rem_euclid_old_returns_m :
    remEuclidOld 0xC0800000 0x40800000 = 0x40800000 ∧ remEuclidOld 0x80000000 0x40800000 = 0x40800000 ∧
    remEuclidOld 0xBF800000 0xC0800000 = 0xC0A00000 := by
  decide +kernel

/-! ### The models meet the independent spec predicates of `Retro.Spec.FloatSpec`

(the same predicates the driver evaluates on the implementation's output) -/

theorem fallback_floor_meets_spec {x : UInt32} {q : ℚ} (h : toRat? x = some q) :
    ∃ r, toRat? (FloatFallback.floor x) = some r ∧ Spec.FloatSpec.isFloorOf q r = true := by
  refine ⟨_, fallback_floor_value h, ?_⟩
  unfold Spec.FloatSpec.isFloorOf
  have h1 : (((⌊q⌋ : ℤ) : ℚ)).den = 1 := Rat.den_intCast _
  have h2 : ((⌊q⌋ : ℤ) : ℚ) ≤ q := Int.floor_le q
  have h3 : q < ((⌊q⌋ : ℤ) : ℚ) + 1 := Int.lt_floor_add_one q
  simp [h1, h2, h3]

theorem fallback_abs_meets_spec {x : UInt32} {q : ℚ} (h : toRat? x = some q) :
    ∃ r, toRat? (FloatFallback.abs x) = some r ∧ Spec.FloatSpec.isAbsOf q r = true := by
  refine ⟨_, toRat?_abs h, ?_⟩
  unfold Spec.FloatSpec.isAbsOf
  rcases abs_cases q with ⟨ha, hq⟩ | ⟨ha, hq⟩
  · simp [ha, hq]
  · simp [ha, le_of_lt hq]

/-! ### `recip_sqrt`: seed and Newton refinement -/

/-- For every non-negative float (sign bit clear) the magic-constant seed is computed without
overflow and is a finite float. -/
theorem rsqrt_seed_ok {x : UInt32} (hs : signBit x = false) :
    ∃ y, rsqrtSeed x = .ok y ∧ y = (0x5f375a86 : UInt32) - (x >>> 1) ∧ expField y ≠ 255 := by
  rw [signBit_eq] at hs
  have hlt : x.toNat < 2 ^ 31 := by simpa using hs
  have hsh : (x >>> 1).toNat = x.toNat / 2 := by
    rw [UInt32.toNat_shiftRight]; simp [Nat.shiftRight_eq_div_pow]
  have hle : (x >>> 1).toNat ≤ 1597463174 := by rw [hsh]; omega
  have hnot : ¬ (x >>> 1 > 0x5f375a86) := by
    rw [gt_iff_lt, UInt32.lt_iff_toNat_lt, hsh]
    show ¬ (1597463174 < x.toNat / 2); omega
  refine ⟨(0x5f375a86 : UInt32) - (x >>> 1), by unfold rsqrtSeed; simp only [hnot, ↓reduceIte], rfl, ?_⟩
  have hsub : ((0x5f375a86 : UInt32) - (x >>> 1)).toNat = 1597463174 - x.toNat / 2 := by
    rw [UInt32.toNat_sub_of_le _ _ (by rw [UInt32.le_iff_toNat_le]; exact hle), hsh]; rfl
  rw [expField_eq, hsub]; omega

example : signBit 0x40800000 = false ∧ rsqrtSeed 0x40800000 = .ok 0x3EF75A86 := by decide   -- x = 4.0, seed ≈ 0.483

/-- Very negative inputs underflow the `u32` subtraction: a panic in the checked profile, never a
wrong value (outside the domain of `recip_sqrt`). -/
example : rsqrtSeed 0xBF800000 = .panic "attempt to subtract with overflow" := by decide

section Newton
variable {K : Type} [Field K] [CharZero K]

/-- **newton_step.** With `r` the exact reciprocal square root (`r²·x = 1`) and a seed of relative
error `e` (`y = (1+e)·r`), one refinement `y·(3/2 − x·y²/2)` has relative error
`−(3/2)e² − (1/2)e³`: the step squares the error, for the fallback and the `mm` variant alike. -/
theorem newton_step (x r e : K) (hr : r * r * x = 1) :
    newtonStep x ((1 + e) * r) = r * (1 - 3 / 2 * e ^ 2 - 1 / 2 * e ^ 3) := by
  unfold newtonStep
  have h : (1 : K) / 2 * x * ((1 + e) * r) * ((1 + e) * r) = 1 / 2 * (1 + e) ^ 2 * (r * r * x) := by ring
  rw [h, hr]; ring

/-- Heron's step used by `mm::sqrt`: with `s² = x`, `s ≠ 0` and an estimate `y = (1+e)·s`, `e ≠ −1`,
the refined value is `s·(1 + e²/(2(1+e)))`. -/
theorem heron_step (x s e : K) (hs : s * s = x) (hs0 : s ≠ 0) (he : 1 + e ≠ 0) :
    heronStep x ((1 + e) * s) = s * (1 + e ^ 2 / (2 * (1 + e))) := by
  unfold heronStep
  rw [← hs]; field_simp; ring
-- satisfiable: x = 4, s = 2, e = 1/10
example : (2 : ℚ) * 2 = 4 ∧ (2 : ℚ) ≠ 0 ∧ (1 : ℚ) + 1 / 10 ≠ 0 := by norm_num
end Newton

section NewtonOrdered
variable {K : Type} [Field K] [LinearOrder K] [IsStrictOrderedRing K]

/-- Error bound after one Newton step: a seed within `ε ≤ 1` of `r` gives a result within
`2ε²` of `r` (relative), and never above `r`. -/
theorem newton_step_error_bound (x r e ε : K) (hr : r * r * x = 1) (hr0 : 0 < r) (he : |e| ≤ ε)
    (hε : ε ≤ 1) :
    newtonStep x ((1 + e) * r) ≤ r ∧ r * (1 - 2 * ε ^ 2) ≤ newtonStep x ((1 + e) * r) := by
  rw [newton_step x r e hr]
  have hε0 : 0 ≤ ε := le_trans (abs_nonneg e) he
  have hb := abs_le.1 he
  have he2 : e ^ 2 ≤ ε ^ 2 := by
    rw [← sq_abs e]; exact pow_le_pow_left₀ (abs_nonneg e) he 2
  have he2' : 0 ≤ e ^ 2 := sq_nonneg e
  -- (3/2)e² + (1/2)e³ = e²(3 + e)/2 ∈ [0, 2ε²]
  have h1 : 0 ≤ 3 / 2 * e ^ 2 + 1 / 2 * e ^ 3 := by
    have : 3 / 2 * e ^ 2 + 1 / 2 * e ^ 3 = e ^ 2 * ((3 + e) / 2) := by ring
    rw [this]; apply mul_nonneg he2'; linarith
  have h2 : 3 / 2 * e ^ 2 + 1 / 2 * e ^ 3 ≤ 2 * ε ^ 2 := by
    have : 3 / 2 * e ^ 2 + 1 / 2 * e ^ 3 = e ^ 2 * ((3 + e) / 2) := by ring
    rw [this]
    have h3 : (3 + e) / 2 ≤ 2 := by linarith
    have h4 : 0 ≤ (3 + e) / 2 := by linarith
    calc e ^ 2 * ((3 + e) / 2) ≤ ε ^ 2 * ((3 + e) / 2) := mul_le_mul_of_nonneg_right he2 h4
      _ ≤ ε ^ 2 * 2 := mul_le_mul_of_nonneg_left h3 (sq_nonneg ε)
      _ = 2 * ε ^ 2 := by ring
  constructor
  · have : r * (1 - 3 / 2 * e ^ 2 - 1 / 2 * e ^ 3) = r - r * (3 / 2 * e ^ 2 + 1 / 2 * e ^ 3) := by ring
    rw [this]; have := mul_nonneg (le_of_lt hr0) h1; linarith
  · have : r * (1 - 3 / 2 * e ^ 2 - 1 / 2 * e ^ 3) = r - r * (3 / 2 * e ^ 2 + 1 / 2 * e ^ 3) := by ring
    rw [this]
    have := mul_le_mul_of_nonneg_left h2 (le_of_lt hr0)
    have e2 : r * (1 - 2 * ε ^ 2) = r - r * (2 * ε ^ 2) := by ring
    rw [e2]; linarith

-- satisfiable: x = 4, r = 1/2, seed 3.5 % high
example : (1 / 2 : ℚ) * (1 / 2) * 4 = 1 ∧ |(35 / 1000 : ℚ)| ≤ 35 / 1000 := by norm_num
end NewtonOrdered

/-! ### The two `round_up_to_half` variants (raster.rs:228-238) -/

/-- **round_half_variants_agree.** Whenever the rounded sum `s = x + 0.5` is a finite non-negative
float below `2^31` — every screen coordinate `−½ ≤ x < 2^31` that survives clipping — the
no-fp variant `(x + 0.5) as i32 as f32 + 0.5` returns the same bits as the fp variant
`floor(x + 0.5) + 0.5` (with the exact floor of std / libm / the repaired fallback). -/
theorem round_half_variants_agree {x : UInt32} {σ : ℚ} (hs : toRat? (add x half) = some σ)
    (h0 : 0 ≤ σ) (hsign : signBit (add x half) = false) (h1 : σ < 2 ^ 31) :
    roundUpHalfNoFp x = roundUpHalfFp F32.floor x := by
  unfold roundUpHalfNoFp roundUpHalfFp
  congr 1
  -- (s as i32) as f32 = floor s
  have hti : toI32Sat (add x half) = ⌊σ⌋ := by
    unfold toI32Sat
    rw [toIntSat_finite hs, ratTrunc_nonneg h0]
    have hf0 : 0 ≤ ⌊σ⌋ := Int.floor_nonneg.2 h0
    have hf1 : ⌊σ⌋ < 2 ^ 31 := by apply Int.floor_lt.2; exact_mod_cast h1
    unfold pow31
    rw [if_neg (by omega), if_neg (by omega)]
  rw [hti]
  unfold F32.floor intToF32
  rw [hs]; dsimp only
  have : σ.floor = ⌊σ⌋ := rfl
  rw [this]
  by_cases hz : ⌊σ⌋ = 0
  · rw [hz]
    simp only [beq_self_eq_true, ↓reduceIte, Int.cast_zero]
    rw [and_signMask_of_signBit_false hsign, ofRat_zero]
  · have : (⌊σ⌋ == 0) = false := by simpa using hz
    rw [this]
    simp only [Bool.false_eq_true, ↓reduceIte]

/-- Corollary on exact values: when `x + ½` is itself a binary32 value (e.g. every `x` with
`½ ≤ x < 2^22`, or any multiple of `2^-10` up to `2^13`), the hypotheses are those on `x`. -/
theorem round_half_variants_agree_exact {x : UInt32} {q : ℚ} (hx : toRat? x = some q)
    (hrep : Rep (q + 1 / 2)) (h0 : -1 / 2 ≤ q) (h1 : q + 1 / 2 < 2 ^ 31) :
    roundUpHalfNoFp x = roundUpHalfFp F32.floor x := by
  have hs : toRat? (add x half) = some (q + 1 / 2) := add_finite_exact hx toRat?_half hrep
  have hsign : signBit (add x half) = false := by
    unfold add
    rw [isNaN_eq_false_of_some hx, isNaN_eq_false_of_some toRat?_half, hx, toRat?_half]
    simp only [Bool.or_self, Bool.false_eq_true, ↓reduceIte]
    split
    · split
      · -- x = 0 and 1/2 = 0: impossible
        rename_i _ h2
        simp at h2
      · rfl
    · exact signBit_ofRat_of_nonneg (by linarith)
  exact round_half_variants_agree hs (by linarith) hsign h1

example : roundUpHalfNoFp 0x40200000 = 0x40600000 ∧ roundUpHalfFp F32.floor 0x40200000 = 0x40600000 := by
  decide +kernel   -- x = 2.5 ↦ 3.5 in both

/-- Since fix b772987 compares the candidate centre with `x` itself, the two variants also agree
below `−½`, where truncation toward zero is not floor: `x = −1.75` gives `−1.5` in both (before the fix
the no-fp build gave `−0.5`). -/
theorem round_half_variants_agree_below_witness :
    roundUpHalfFp F32.floor 0xBFE00000 = 0xBFC00000 ∧ roundUpHalfNoFp 0xBFE00000 = 0xBFC00000 := by
  unfold roundUpHalfFp roundUpHalfNoFp roundUpHalfCore
  decide +kernel

/-- With the repaired fallback `floor` the fp variant is the same function whichever exact back end
provides `floor`. -/
theorem round_half_fallback_eq (x : UInt32) :
    roundUpHalfFp FloatFallback.floor x = roundUpHalfFp F32.floor x := by
  unfold roundUpHalfFp; rw [fallback_floor_exact]

/-! ### "Consequently … texture addressing and pixel rounding behave the same" -/

theorem toI32Sat_congr {a b : UInt32} {q : ℚ} (ha : toRat? a = some q) (hb : toRat? b = some q) :
    toI32Sat a = toI32Sat b := by
  unfold toI32Sat; rw [toIntSat_finite ha, toIntSat_finite hb]

theorem isInf_cases {x : UInt32} (h : toRat? x = none) (hn : isNaN x = false) :
    x = posInf ∨ x = negInf := by
  have he := expField_of_none h
  have hm : manField x = 0 := by
    unfold isNaN at hn
    rw [he] at hn
    simpa using hn
  have hp := pack_fields x
  rw [he, hm] at hp
  cases hs : signBit x <;> rw [hs] at hp
  · left; rw [← hp]; decide
  · right; rw [← hp]; decide

/-- **Texture addressing is the same with every back end's `floor`.**  The index computation
`floor(x) as i32` of the samplers gives the same integer whether `floor` is the exact one (std, libm),
the repaired `fallback::floor` or the guarded `mm::floor` — for *every* bit pattern. -/
theorem texture_addressing_same_with_mm_floor (x : UInt32) :
    toI32Sat (mmFloor x) = toI32Sat (F32.floor x) := by
  cases h : toRat? x with
  | none => rw [(mm_floor_same_value x).2 h]
  | some q => exact toI32Sat_congr (mm_floor_exact h) (floor_value h)

theorem texture_addressing_same_with_fallback_floor (x : UInt32) :
    toI32Sat (FloatFallback.floor x) = toI32Sat (F32.floor x) := by rw [fallback_floor_exact]

/-- `x as u32` likewise depends only on the value. -/
theorem toU32Sat_mm_floor (x : UInt32) : toU32Sat (mmFloor x) = toU32Sat (F32.floor x) := by
  cases h : toRat? x with
  | none => rw [(mm_floor_same_value x).2 h]
  | some q =>
    unfold toU32Sat; rw [toIntSat_finite (mm_floor_exact h), toIntSat_finite (floor_value h)]

/-- **The samplers address the same texel in every configuration** (`Retro.Model.Tex`, with the
back end's `floor` as parameter): no fp feature, `mm`, and the exact floor of std / libm. -/
theorem samplers_same_for_all_backends :
    Tex.repeatAxisF FloatFallback.floor = Tex.repeatAxis ∧ Tex.repeatAxisF mmFloor = Tex.repeatAxis ∧
    Tex.clampAxisF FloatFallback.floor = Tex.clampAxis ∧ Tex.clampAxisF mmFloor = Tex.clampAxis := by
  refine ⟨?_, ?_, ?_, ?_⟩
  · funext mask x; unfold Tex.repeatAxis Tex.repeatAxisF; rw [fallback_floor_exact]
  · funext mask x; unfold Tex.repeatAxis Tex.repeatAxisF; rw [texture_addressing_same_with_mm_floor]
  · funext wf x; unfold Tex.clampAxis Tex.clampAxisF Tex.clampAxisHiF
    cases clamp x 0 (sub wf one) with
    | panic s => rfl
    | ok c => simp only [fallback_floor_exact]
  · funext wf x; unfold Tex.clampAxis Tex.clampAxisF Tex.clampAxisHiF
    cases clamp x 0 (sub wf one) with
    | panic s => rfl
    | ok c => simp only [toU32Sat_mm_floor]

/-- `a + b` depends only on the values of finite `a`, `b` when the exact sum is not zero. -/
theorem add_congr_left {a a' b : UInt32} {x y : ℚ} (ha : toRat? a = some x) (ha' : toRat? a' = some x)
    (hb : toRat? b = some y) (hne : x + y ≠ 0) : add a b = add a' b := by
  unfold add
  rw [isNaN_eq_false_of_some ha, isNaN_eq_false_of_some ha', isNaN_eq_false_of_some hb, ha, ha', hb]
  have : (x + y == 0) = false := by simpa using hne
  simp only [Bool.or_self, Bool.false_eq_true, ↓reduceIte, this]

theorem toRat?_neg_half : toRat? (neg half) = some (-1 / 2) := by decide +kernel

/-- The comparison-and-adjust step depends only on the (integral) value of `n`. -/
theorem round_half_core_congr {n n' x : UInt32} {z : ℤ} (hn : toRat? n = some (z : ℚ))
    (hn' : toRat? n' = some (z : ℚ)) : roundUpHalfCore n x = roundUpHalfCore n' x := by
  have hodd : ∀ c : ℚ, (c = 1 / 2 ∨ c = -1 / 2) → (z : ℚ) + c ≠ 0 := by
    intro c hc h
    have h2 : (2 : ℚ) * z + 2 * c = 0 := by linarith
    rcases hc with hc | hc <;> rw [hc] at h2
    · have : ((2 * z + 1 : ℤ) : ℚ) = 0 := by push_cast; linarith
      have : (2 * z + 1 : ℤ) = 0 := by exact_mod_cast this
      omega
    · have : ((2 * z - 1 : ℤ) : ℚ) = 0 := by push_cast; linarith
      have : (2 * z - 1 : ℤ) = 0 := by exact_mod_cast this
      omega
  have h1 : sub n half = sub n' half := by
    unfold sub; exact add_congr_left hn hn' toRat?_neg_half (hodd _ (Or.inr rfl))
  have h2 : add n half = add n' half := add_congr_left hn hn' toRat?_half (hodd _ (Or.inl rfl))
  unfold roundUpHalfCore; rw [h1, h2]

/-- **Pixel rounding is the same with the `mm` back end's `floor`**: whenever the rounded sum
`x + 0.5` is finite, `round_up_to_half` returns the same bits with the guarded `mm::floor` as with the
exact one. -/
theorem round_half_mm_eq {x : UInt32} {σ : ℚ} (hs : toRat? (add x half) = some σ) :
    roundUpHalfFp mmFloor x = roundUpHalfFp F32.floor x := by
  unfold roundUpHalfFp
  exact round_half_core_congr (mm_floor_exact hs) (floor_value hs)

/-- **round_up_to_half_exact** (the repaired function, fix b772987).  For every finite `x` with
`|x| < 2^22` the result is *exactly* the next pixel centre `⌊x + ½⌋ + ½` — also where the float sum
`x + 0.5` is rounded (e.g. `x = 0.49999997`, where the code before the fix returned `1.5`). -/
theorem round_up_to_half_exact {x : UInt32} {q : ℚ} (hx : toRat? x = some q) (hq : |q| < 2 ^ 22) :
    toRat? (roundUpHalfFp F32.floor x) = some (((⌊q + 1 / 2⌋ : ℤ) : ℚ) + 1 / 2) := by
  set k : ℤ := ⌊q + 1 / 2⌋ with hk
  have hb := abs_lt.1 hq
  have hk1 : (k : ℚ) ≤ q + 1 / 2 := Int.floor_le _
  have hk2 : q + 1 / 2 < (k : ℚ) + 1 := Int.lt_floor_add_one _
  have hklo : -(2 ^ 22 : ℤ) ≤ k := by
    apply Int.le_floor.2; push_cast; linarith
  have hkhi : k ≤ 2 ^ 22 := by
    have : (k : ℚ) < 2 ^ 22 + 1 := by linarith
    have : k < 2 ^ 22 + 1 := by exact_mod_cast this
    omega
  -- the rounded sum lies between the representable anchors k and k + 1
  have hrk : Rep ((k : ℤ) : ℚ) := rep_int (by rw [abs_le]; constructor <;> omega)
  have hrk1 : Rep (((k + 1 : ℤ) : ℤ) : ℚ) := rep_int (by rw [abs_le]; constructor <;> omega)
  obtain ⟨σ, hσ, hσ1, hσ2⟩ : ∃ σ, toRat? (add x half) = some σ ∧ (k : ℚ) ≤ σ ∧ σ ≤ (k : ℚ) + 1 := by
    unfold add
    rw [isNaN_eq_false_of_some hx, isNaN_eq_false_of_some toRat?_half, hx, toRat?_half]
    simp only [Bool.or_self, Bool.false_eq_true, ↓reduceIte]
    by_cases h0 : q + 1 / 2 = 0
    · have hb0 : (q + 1 / 2 == 0) = true := by rw [h0]; rfl
      rw [hb0]; simp only [↓reduceIte]
      have hk0 : k = 0 := by rw [hk, h0]; simp
      split
      · exact ⟨0, toRat?_zeroS _, by rw [hk0]; simp, by rw [hk0]; simp⟩
      · exact ⟨0, toRat?_zero, by rw [hk0]; simp, by rw [hk0]; simp⟩
    · have hb0 : (q + 1 / 2 == 0) = false := by simpa using h0
      rw [hb0]; simp only [Bool.false_eq_true, ↓reduceIte]
      have := ofRat_between hrk hrk1 hk1 (by push_cast; linarith)
      obtain ⟨v, hv, hv1, hv2⟩ := this
      exact ⟨v, hv, hv1, by push_cast at hv2; exact hv2⟩
  -- n = ⌊σ⌋ is k or k + 1
  have hn := floor_value hσ
  have hfl : ⌊σ⌋ = k ∨ (⌊σ⌋ = k + 1 ∧ σ = (k : ℚ) + 1) := by
    rcases lt_or_eq_of_le hσ2 with h | h
    · left; rw [Int.floor_eq_iff]; exact ⟨hσ1, h⟩
    · right; refine ⟨?_, h⟩
      rw [h]; have : ((k : ℚ) + 1) = ((k + 1 : ℤ) : ℚ) := by push_cast; rfl
      rw [this, Int.floor_intCast]
  have hrep_half : ∀ z : ℤ, -(2 ^ 22 : ℤ) - 1 ≤ z → z ≤ 2 ^ 22 + 1 → Rep ((z : ℚ) + 1 / 2) := by
    intro z h1 h2
    refine ⟨(2 * z + 1).natAbs, -1, ?_, by norm_num, by norm_num, ?_⟩
    · have : ((2 * z + 1).natAbs : ℤ) < 2 ^ 24 := by rw [Int.natCast_natAbs, abs_lt]; constructor <;> omega
      exact_mod_cast this
    · have e : (z : ℚ) + 1 / 2 = ((2 * z + 1 : ℤ) : ℚ) * (2 : ℚ) ^ (-1 : ℤ) := by push_cast; norm_num; ring
      rw [e, abs_mul, abs_of_pos (by positivity : (0 : ℚ) < (2 : ℚ) ^ (-1 : ℤ)), ← Int.cast_abs, Int.abs_eq_natAbs]
      simp
  unfold roundUpHalfFp roundUpHalfCore
  rcases hfl with hf | ⟨hf, hσe⟩
  · -- n = k: k − ½ ≤ x, so the centre above is taken
    rw [hf] at hn
    have hsub : toRat? (sub (F32.floor (add x half)) half) = some ((k : ℚ) - 1 / 2) := by
      unfold sub
      have := add_finite_exact hn toRat?_neg_half (by
        have := hrep_half (k - 1) (by omega) (by omega)
        have e : ((k : ℚ) + -1 / 2) = (((k - 1 : ℤ) : ℚ) + 1 / 2) := by push_cast; ring
        rw [e]; exact this)
      rw [this]; congr 1; ring
    rw [gt, lt_finite hx hsub]
    have : ¬ q < (k : ℚ) - 1 / 2 := by linarith
    simp only [this, decide_false, Bool.false_eq_true, ↓reduceIte]
    exact add_finite_exact hn toRat?_half (hrep_half k (by omega) (by omega))
  · -- the sum was rounded up to k + 1: the centre below it, k + ½, is still above x
    rw [hf] at hn
    have hsub : toRat? (sub (F32.floor (add x half)) half) = some ((k : ℚ) + 1 / 2) := by
      unfold sub
      have := add_finite_exact hn toRat?_neg_half (by
        have := hrep_half k (by omega) (by omega)
        have e : ((((k + 1 : ℤ) : ℤ) : ℚ) + -1 / 2) = ((k : ℚ) + 1 / 2) := by push_cast; ring
        rw [e]; exact this)
      rw [this]; congr 1; push_cast; ring
    rw [gt, lt_finite hx hsub]
    have : q < (k : ℚ) + 1 / 2 := by linarith
    simp only [this, decide_true, ↓reduceIte]
    exact hsub

/-- the rounded sum `x + 0.5` of a coordinate `−½ ≤ x < 2^22`: finite, non-negative, sign clear -/
theorem add_half_facts {x : UInt32} {q : ℚ} (hx : toRat? x = some q) (h0 : -1 / 2 ≤ q) (hq : q < 2 ^ 22) :
    ∃ σ, toRat? (add x half) = some σ ∧ 0 ≤ σ ∧ σ < 2 ^ 31 ∧ signBit (add x half) = false := by
  unfold add
  rw [isNaN_eq_false_of_some hx, isNaN_eq_false_of_some toRat?_half, hx, toRat?_half]
  simp only [Bool.or_self, Bool.false_eq_true, ↓reduceIte]
  by_cases hz : q + 1 / 2 = 0
  · have hb0 : (q + 1 / 2 == 0) = true := by rw [hz]; rfl
    have hh : ((1 / 2 : ℚ) == 0) = false := by norm_num
    rw [hb0, hh]
    simp only [Bool.and_false, Bool.false_eq_true, ↓reduceIte]
    exact ⟨0, toRat?_zero, le_refl _, by norm_num, by decide⟩
  · have hb0 : (q + 1 / 2 == 0) = false := by simpa using hz
    rw [hb0]; simp only [Bool.false_eq_true, ↓reduceIte]
    have hhi : Rep ((2 : ℚ) ^ (23 : ℕ)) := rep_two_pow (by norm_num)
    obtain ⟨v, hv, hv0, hv1⟩ := ofRat_between (q := q + 1 / 2) Rep.zero hhi (by linarith) (by norm_num; linarith)
    exact ⟨v, hv, hv0, lt_of_le_of_lt hv1 (by norm_num), signBit_ofRat_of_nonneg (by linarith)⟩

/-- **round_up_to_half_exact, no-fp variant.** For every coordinate `−½ ≤ x < 2^22` (what survives
clipping) the variant compiled without an fp feature returns exactly `⌊x + ½⌋ + ½` as well. -/
theorem round_up_to_half_exact_nofp {x : UInt32} {q : ℚ} (hx : toRat? x = some q) (h0 : -1 / 2 ≤ q)
    (hq : q < 2 ^ 22) :
    toRat? (roundUpHalfNoFp x) = some (((⌊q + 1 / 2⌋ : ℤ) : ℚ) + 1 / 2) := by
  obtain ⟨σ, hσ, hσ0, hσ1, hs⟩ := add_half_facts hx h0 hq
  rw [round_half_variants_agree hσ hσ0 hs hσ1]
  apply round_up_to_half_exact hx
  rw [abs_lt]; constructor <;> linarith

-- the witness of the repaired defect: x = 0.49999997 ↦ 0.5 (before the fix: 1.5)
example : roundUpHalfFp F32.floor 0x3EFFFFFF = half ∧ roundUpHalfNoFp 0x3EFFFFFF = half := by
  unfold roundUpHalfFp roundUpHalfNoFp roundUpHalfCore
  decide +kernel

example : toRat? (add 0xC0200000 half) = some (-2) ∧
    roundUpHalfFp mmFloor 0xC0200000 = roundUpHalfFp F32.floor 0xC0200000 := by decide +kernel   -- x = −2.5

end Retro.Props.C20
