/-
U01 — library utilities that no listed property names (an extra engine, not a property check).

The theorems live in three sub-modules, all in `namespace Retro.Props.U01`:

* `Retro.Props.U01.Vec`    vectors / points: `dot`, `+`, `-`, `Sum`, `splat`, `Index`, projections, `clamp`,
                           `distance` (incl. the triangle inequality), `approx_eq`, integer `Affine`/`Linear`
* `Retro.Props.U01.Mesh`   `Mesh::new`, the builder, `transform`, `with_vertex_normals`
* `Retro.Props.U01.Stats`  `Stats +=`, `per_sec`, `per_frame`, `human_num`, `human_time`

See design/U01.md for the list with one-line meanings, what is partial, and the candidate findings.
-/
import Retro.Props.U01.Vec
import Retro.Props.U01.Mesh
import Retro.Props.U01.Stats
