/-
U01 (part 2) — theorems about `Retro.Model.MeshUtil` (`core/src/geom/mesh.rs`): `Mesh::new`, the builder,
`transform`, `with_vertex_normals`.
-/
import Retro.Model.MeshUtil
import Retro.Spec.Util
import Mathlib.Tactic.Ring
import Mathlib.Tactic.Linarith
import Mathlib.Tactic.Positivity
import Mathlib.Tactic.NormNum
import Mathlib.Tactic.FieldSimp
import Mathlib.Algebra.Order.Field.Basic

set_option linter.unusedSectionVars false
set_option linter.unusedVariables false

namespace Retro.Props.U01
open Retro Retro.Mat Retro.MeshUtil Retro.Spec.Util

/-! ## `Mesh::new`, `build`, the `push_*` methods -/

section Basic
variable {α A : Type}

theorem face_valid_iff (n : Nat) (f : Face) : f.valid n = true ↔ f.a < n ∧ f.b < n ∧ f.c < n := by
  simp [Face.valid, and_assoc]

/-- `Mesh::new` returns iff every index of every face is `< verts.len()` … -/
theorem meshNew_isOk_iff (fs : List Face) (vs : List (V3 α × A)) :
    (meshNew fs vs).isOk = true ↔ ∀ f ∈ fs, f.a < vs.length ∧ f.b < vs.length ∧ f.c < vs.length := by
  unfold meshNew
  by_cases h : fs.all (Face.valid vs.length) = true
  · simp only [h, if_true, Outcome.isOk, true_iff]
    intro f hf
    exact (face_valid_iff _ f).mp (List.all_eq_true.mp h f hf)
  · simp only [h, if_false, Outcome.isOk, Bool.false_eq_true, false_iff]
    intro hc
    exact h (List.all_eq_true.mpr fun f hf => (face_valid_iff _ f).mpr (hc f hf))

/-- … in which case it stores exactly the faces and vertices it was given, in order … -/
theorem meshNew_ok_val (fs : List Face) (vs : List (V3 α × A)) (m : Mesh α A) (h : meshNew fs vs = .ok m) :
    m.faces = fs ∧ m.verts = vs := by
  unfold meshNew at h
  split at h
  · cases h; exact ⟨rfl, rfl⟩
  · cases h

/-- … and otherwise it panics. -/
theorem meshNew_panics (fs : List Face) (vs : List (V3 α × A)) (f : Face) (hf : f ∈ fs)
    (h : vs.length ≤ f.a ∨ vs.length ≤ f.b ∨ vs.length ≤ f.c) : ∃ s, meshNew fs vs = .panic s := by
  have : ¬ (meshNew fs vs).isOk = true := by
    rw [meshNew_isOk_iff]
    intro hc
    have := hc f hf
    omega
  cases hm : meshNew fs vs with
  | ok m => simp [hm, Outcome.isOk] at this
  | panic s => exact ⟨s, rfl⟩

/-- `build ∘ into_builder = id` on every mesh that `Mesh::new` produced. -/
theorem build_intoBuilder (fs : List Face) (vs : List (V3 α × A)) (m : Mesh α A) (h : meshNew fs vs = .ok m) :
    build (intoBuilder m) = .ok m := by
  obtain ⟨h1, h2⟩ := meshNew_ok_val fs vs m h
  cases m
  simp only at h1 h2
  subst h1 h2
  exact h

/-- The pushes append, in call order, and leave the other list alone. -/
theorem pushFace_eq (b : Mesh α A) (i j k : Nat) :
    (pushFace b i j k).faces = b.faces ++ [⟨i, j, k⟩] ∧ (pushFace b i j k).verts = b.verts := ⟨rfl, rfl⟩
theorem pushFaces_eq (b : Mesh α A) (fs : List Face) :
    (pushFaces b fs).faces = b.faces ++ fs ∧ (pushFaces b fs).verts = b.verts := ⟨rfl, rfl⟩
theorem pushVert_eq (b : Mesh α A) (p : V3 α) (a : A) :
    (pushVert b p a).verts = b.verts ++ [(p, a)] ∧ (pushVert b p a).faces = b.faces := ⟨rfl, rfl⟩
theorem pushVerts_eq (b : Mesh α A) (vs : List (V3 α × A)) :
    (pushVerts b vs).verts = b.verts ++ vs ∧ (pushVerts b vs).faces = b.faces := ⟨rfl, rfl⟩
theorem pushFace_eq_pushFaces (b : Mesh α A) (i j k : Nat) : pushFace b i j k = pushFaces b [⟨i, j, k⟩] := rfl
theorem pushVert_eq_pushVerts (b : Mesh α A) (p : V3 α) (a : A) : pushVert b p a = pushVerts b [(p, a)] := rfl
theorem pushFaces_pushFaces (b : Mesh α A) (f g : List Face) :
    pushFaces (pushFaces b f) g = pushFaces b (f ++ g) := by simp [pushFaces, List.append_assoc]
theorem pushVerts_pushVerts (b : Mesh α A) (v w : List (V3 α × A)) :
    pushVerts (pushVerts b v) w = pushVerts b (v ++ w) := by simp [pushVerts, List.append_assoc]
/-- faces and vertices may be pushed in any interleaving -/
theorem pushFaces_pushVerts_comm (b : Mesh α A) (f : List Face) (v : List (V3 α × A)) :
    pushFaces (pushVerts b v) f = pushVerts (pushFaces b f) v := rfl

/-- From the empty builder: `build` is `Mesh::new` of everything pushed (forward references to vertices
pushed later are fine; only the final state is validated). -/
theorem build_pushed (f : List Face) (v : List (V3 α × A)) :
    build (pushVerts (pushFaces (builder : Mesh α A) f) v) = meshNew f v := by
  simp [build, pushVerts, pushFaces, builder]

example : (build (pushVerts (pushFaces (builder : Mesh Int Unit) [⟨0, 1, 2⟩])
    [(⟨0, 0, 0⟩, ()), (⟨1, 0, 0⟩, ()), (⟨0, 1, 0⟩, ())])).isOk = true := by decide
example : (build (pushVerts (pushFaces (builder : Mesh Int Unit) [⟨0, 1, 3⟩])
    [(⟨0, 0, 0⟩, ()), (⟨1, 0, 0⟩, ()), (⟨0, 1, 0⟩, ())])).isOk = false := by decide

end Basic

/-! ## `Builder::transform` (mesh.rs:156) -/

section Transform
variable {R : Type} [CommRing R]

/-- Faces unchanged, every position mapped by `apply_pt`, vertex order and count kept; the attribute is
`()` — `transform` exists only for `Builder<()>`, so there are no normals it could transform. -/
theorem transform_spec (tf : M4 R) (b : Mesh R Unit) :
    (transform tf b).faces = b.faces ∧ (transform tf b).verts.length = b.verts.length ∧
    (transform tf b).verts.map (·.1) = (b.verts.map (·.1)).map tf.applyPt := by
  simp [transform, Function.comp_def]

theorem transform_get (tf : M4 R) (b : Mesh R Unit) (i : Nat) :
    (transform tf b).verts[i]? = (b.verts[i]?).map (fun v => (tf.applyPt v.1, ())) := by
  simp [transform]

theorem applyPt_identity (p : V3 R) : (M4.identity : M4 R).applyPt p = p := by
  obtain ⟨x, y, z⟩ := p
  simp only [M4.applyPt, M4.identity, dot4, V3.mk.injEq]
  refine ⟨?_, ?_, ?_⟩ <;> ring

theorem transform_identity (b : Mesh R Unit) : transform M4.identity b = b := by
  obtain ⟨fs, vs⟩ := b
  simp only [transform, Mesh.mk.injEq, true_and]
  conv_rhs => rw [← List.map_id vs]
  apply List.map_congr_left
  intro v _
  simp [applyPt_identity]

/-- Transforming twice is transforming by the composite (`m.then(n)`), for an affine first matrix. -/
theorem transform_transform (m n : M4 R) (hm : m.r3 = ⟨0, 0, 0, 1⟩) (b : Mesh R Unit) :
    transform n (transform m b) = transform (m.andThen n) b := by
  obtain ⟨fs, vs⟩ := b
  simp only [transform, List.map_map, Mesh.mk.injEq, true_and]
  apply List.map_congr_left
  intro v _
  obtain ⟨⟨x, y, z⟩, u⟩ := v
  obtain ⟨⟨a00, a01, a02, a03⟩, ⟨a10, a11, a12, a13⟩, ⟨a20, a21, a22, a23⟩, r3⟩ := m
  obtain ⟨⟨b00, b01, b02, b03⟩, ⟨b10, b11, b12, b13⟩, ⟨b20, b21, b22, b23⟩, ⟨b30, b31, b32, b33⟩⟩ := n
  simp only at hm
  subst hm
  simp only [Function.comp, M4.andThen, M4.compose, composeRow4, M4.applyPt, dot4, M4.col, V4.get,
    Prod.mk.injEq, V3.mk.injEq, and_true]
  refine ⟨?_, ?_, ?_⟩ <;> ring

/-- `transform` does not validate: out-of-range indices stay pending. -/
theorem transform_build_isOk (tf : M4 R) (b : Mesh R Unit) :
    (build (transform tf b)).isOk = (build b).isOk := by
  simp only [build, meshNew, transform, List.length_map]
  split <;> rfl

end Transform

/-! ## `with_vertex_normals` (mesh.rs:185) -/

section Accum
variable {R : Type} [CommRing R]

/-- One face's contribution to vertex `i`, as the spec states it. -/
def specStep (pos : List (V3 R)) (i : Nat) (acc : V3 R) (f : Face) : V3 R :=
  match faceNormal? pos f with
  | some n => addTimes acc n (mult f i)
  | none => acc

theorem vertexSum_eq_foldl (pos : List (V3 R)) (fs : List Face) (i : Nat) :
    vertexSum pos fs i = fs.foldl (specStep pos i) V3.zero := rfl

theorem addAt_get (acc : List (V3 R)) (j : Nat) (n : V3 R) (i : Nat) :
    (addAt acc j n)[i]? = (acc[i]?).map (fun v => if j = i then v.add n else v) := by
  unfold addAt
  rw [List.getElem?_modify]
  by_cases h : j = i
  · simp [h]
  · simp [h]

theorem addAt_length (acc : List (V3 R)) (j : Nat) (n : V3 R) : (addAt acc j n).length = acc.length := by
  simp [addAt]

/-- The three `+=` of one face add `n` to vertex `i` as many times as `i` occurs among the corners. -/
theorem addAt3_get (acc : List (V3 R)) (f : Face) (n : V3 R) (i : Nat) :
    (addAt (addAt (addAt acc f.a n) f.b n) f.c n)[i]? = (acc[i]?).map (fun v => addTimes v n (mult f i)) := by
  rw [addAt_get, addAt_get, addAt_get, Option.map_map, Option.map_map]
  congr 1
  funext v
  by_cases ha : f.a = i <;> by_cases hb : f.b = i <;> by_cases hc : f.c = i <;>
    simp [ha, hb, hc, mult, addTimes, Function.comp]

theorem faceNormal_of_valid (pos : List (V3 R)) (f : Face) (h : f.valid pos.length = true) :
    ∃ n, faceNormal pos f = .ok n ∧ faceNormal? pos f = some n := by
  obtain ⟨ha, hb, hc⟩ := (face_valid_iff _ f).mp h
  refine ⟨faceNormalOf pos[f.a] pos[f.b] pos[f.c], ?_, ?_⟩
  · simp [faceNormal, List.getElem?_eq_getElem ha, List.getElem?_eq_getElem hb, List.getElem?_eq_getElem hc]
  · simp [faceNormal?, faceNormalOf, List.getElem?_eq_getElem ha, List.getElem?_eq_getElem hb,
      List.getElem?_eq_getElem hc]

theorem faceNormal_of_invalid (pos : List (V3 R)) (f : Face) (h : f.valid pos.length = false) :
    ∃ s, faceNormal pos f = .panic s := by
  have : ¬ (f.a < pos.length ∧ f.b < pos.length ∧ f.c < pos.length) := by
    rw [← face_valid_iff]; simp [h]
  unfold faceNormal
  by_cases ha : f.a < pos.length
  · by_cases hb : f.b < pos.length
    · have hc : ¬ f.c < pos.length := fun hc => this ⟨ha, hb, hc⟩
      simp [List.getElem?_eq_getElem ha, List.getElem?_eq_getElem hb, List.getElem?_eq_none (not_lt.mp hc)]
    · simp [List.getElem?_eq_getElem ha, List.getElem?_eq_none (not_lt.mp hb)]
  · simp [List.getElem?_eq_none (not_lt.mp ha)]

theorem foldl_accumFace_panic (pos : List (V3 R)) (fs : List Face) (s : String) :
    fs.foldl (accumFace pos) (.panic s) = .panic s := by
  induction fs with
  | nil => rfl
  | cons f fs ih => simpa [List.foldl_cons, accumFace] using ih

/-- The accumulation loop over valid faces, from any starting state: every entry receives exactly the
contributions the spec lists, in face order. -/
theorem accum_foldl (pos : List (V3 R)) (fs : List Face) (hv : ∀ f ∈ fs, f.valid pos.length = true)
    (acc0 : List (V3 R)) :
    ∃ acc, fs.foldl (accumFace pos) (.ok acc0) = .ok acc ∧ acc.length = acc0.length ∧
      ∀ i, acc[i]? = (acc0[i]?).map (fun v => fs.foldl (specStep pos i) v) := by
  induction fs generalizing acc0 with
  | nil => exact ⟨acc0, rfl, rfl, fun i => by simp⟩
  | cons f fs ih =>
    obtain ⟨n, hn, hn'⟩ := faceNormal_of_valid pos f (hv f (by simp))
    obtain ⟨acc, h1, h2, h3⟩ := ih (fun g hg => hv g (by simp [hg])) (addAt (addAt (addAt acc0 f.a n) f.b n) f.c n)
    refine ⟨acc, ?_, ?_, ?_⟩
    · simpa [List.foldl_cons, accumFace, hn] using h1
    · rw [h2, addAt_length, addAt_length, addAt_length]
    · intro i
      rw [h3 i, addAt3_get, Option.map_map]
      simp [List.foldl_cons, specStep, hn', Function.comp_def]

/-- `accumNormals` returns iff every face index is in range; then entry `i` is `vertexSum i`. -/
theorem accumNormals_ok (pos : List (V3 R)) (fs : List Face) (hv : ∀ f ∈ fs, f.valid pos.length = true) :
    accumNormals pos fs = .ok ((List.range pos.length).map (vertexSum pos fs)) := by
  obtain ⟨acc, h1, h2, h3⟩ := accum_foldl pos fs hv (pos.map fun _ => V3.zero)
  unfold accumNormals
  rw [h1]
  congr 1
  apply List.ext_getElem?
  intro i
  rw [h3 i]
  by_cases hi : i < pos.length
  · simp [hi, vertexSum_eq_foldl]
  · simp [hi]

theorem accumNormals_panics (pos : List (V3 R)) (fs : List Face) (f : Face) (hf : f ∈ fs)
    (hbad : f.valid pos.length = false) : ∃ s, accumNormals pos fs = .panic s := by
  unfold accumNormals
  generalize (pos.map fun _ => (V3.zero : V3 R)) = acc0
  induction fs generalizing acc0 with
  | nil => simp at hf
  | cons g gs ih =>
    by_cases hg : g.valid pos.length = true
    · obtain ⟨n, hn, -⟩ := faceNormal_of_valid pos g hg
      have hf' : f ∈ gs := by
        rcases List.mem_cons.mp hf with rfl | h
        · rw [hg] at hbad; cases hbad
        · exact h
      simpa [List.foldl_cons, accumFace, hn] using ih hf' _
    · obtain ⟨s, hs⟩ := faceNormal_of_invalid pos g (by simpa using hg)
      exact ⟨s, by simp [List.foldl_cons, accumFace, hs, foldl_accumFace_panic]⟩

end Accum

section Normals
variable {K : Type} [Field K] [LinearOrder K] [IsStrictOrderedRing K]

/-- `normalize` (vec.rs:140) with the reciprocal square root as a function of `len_sqr`. -/
theorem normalizeF_eq (rs : K → K) (v : V3 K) : normalizeF rs v = Mat.normalize (rs v.lenSqr) v := rfl

theorem normalizeAll_ok (rs : K → K) (vs : List (V3 K)) (h : ∀ v ∈ vs, v.lenSqr ≠ 0) :
    normalizeAll rs vs = .ok (vs.map fun v => v.smul (rs v.lenSqr)) := by
  induction vs with
  | nil => rfl
  | cons v vs ih =>
    have hv : v.lenSqr ≠ 0 := h v (by simp)
    simp [normalizeAll, normalizeF, hv, ih (fun w hw => h w (by simp [hw]))]

theorem normalizeAll_panics (rs : K → K) (vs : List (V3 K)) (v : V3 K) (hv : v ∈ vs) (h0 : v.lenSqr = 0) :
    ∃ s, normalizeAll rs vs = .panic s := by
  induction vs with
  | nil => simp at hv
  | cons w ws ih =>
    by_cases hw : w.lenSqr = 0
    · exact ⟨"normalize: zero-length vector", by simp [normalizeAll, normalizeF, hw]⟩
    · have hv' : v ∈ ws := by
        rcases List.mem_cons.mp hv with rfl | h
        · exact absurd h0 hw
        · exact h
      obtain ⟨s, hs⟩ := ih hv'
      exact ⟨s, by simp [normalizeAll, normalizeF, hw, hs]⟩

/-- Positions of a builder. -/
def positions (b : Mesh K Unit) : List (V3 K) := b.verts.map (·.1)

theorem withVertexNormals_def (rs : K → K) (b : Mesh K Unit) :
    withVertexNormals rs b =
      (match accumNormals (positions b) b.faces with
      | .panic s => .panic s
      | .ok sums =>
        match normalizeAll rs sums with
        | .panic s => .panic s
        | .ok ns => meshNew b.faces (List.zip (positions b) ns) : Outcome (Mesh K (V3 K))) := rfl

/-- **with_vertex_normals, the normal case.** All indices in range and no vertex with a zero sum: the
result keeps faces and positions, and the normal of vertex `i` is the sum — over the faces in order, once per
corner that is `i` — of the area-weighted face normals `(b − a) × (c − a)`, multiplied by
`recip_sqrt(len_sqr)` of that sum. -/
theorem withVertexNormals_ok (rs : K → K) (b : Mesh K Unit)
    (hv : ∀ f ∈ b.faces, f.valid b.verts.length = true)
    (hz : ∀ i, i < b.verts.length → (vertexSum (positions b) b.faces i).lenSqr ≠ 0) :
    withVertexNormals rs b = .ok ⟨b.faces, List.zip (positions b)
      ((List.range b.verts.length).map fun i =>
        (vertexSum (positions b) b.faces i).smul (rs (vertexSum (positions b) b.faces i).lenSqr))⟩ := by
  have hlen : (positions b).length = b.verts.length := by simp [positions]
  have hv' : ∀ f ∈ b.faces, f.valid (positions b).length = true := by rw [hlen]; exact hv
  rw [withVertexNormals_def]
  rw [accumNormals_ok _ _ hv', hlen]
  dsimp only
  rw [normalizeAll_ok rs _ (by
    intro v hvm
    obtain ⟨i, hi, rfl⟩ := List.mem_map.mp hvm
    exact hz i (List.mem_range.mp hi))]
  simp only [List.map_map]
  unfold meshNew
  have hl : (List.zip (positions b) (List.map ((fun v => v.smul (rs v.lenSqr)) ∘ vertexSum (positions b) b.faces)
      (List.range b.verts.length))).length = b.verts.length := by simp [hlen]
  rw [hl]
  have : b.faces.all (Face.valid b.verts.length) = true := List.all_eq_true.mpr hv
  simp [this, Function.comp_def]

/-- **The panics.** An out-of-range face index panics (`verts[i]`) … -/
theorem withVertexNormals_oob (rs : K → K) (b : Mesh K Unit) (f : Face) (hf : f ∈ b.faces)
    (hbad : f.valid b.verts.length = false) : ∃ s, withVertexNormals rs b = .panic s := by
  have hlen : (positions b).length = b.verts.length := by simp [positions]
  obtain ⟨s, hs⟩ := accumNormals_panics (positions b) b.faces f hf (by rw [hlen]; exact hbad)
  refine ⟨s, ?_⟩
  rw [withVertexNormals_def]
  rw [hs]

/-- … and so does a vertex whose accumulated normal has zero length (`debug_assert_ne!(len_sqr, 0.0)` in
`normalize`; a release build divides by zero there and stores NaN components instead). -/
theorem withVertexNormals_zero_sum (rs : K → K) (b : Mesh K Unit)
    (hv : ∀ f ∈ b.faces, f.valid b.verts.length = true) (i : Nat) (hi : i < b.verts.length)
    (h0 : (vertexSum (positions b) b.faces i).lenSqr = 0) : ∃ s, withVertexNormals rs b = .panic s := by
  have hlen : (positions b).length = b.verts.length := by simp [positions]
  have hv' : ∀ f ∈ b.faces, f.valid (positions b).length = true := by rw [hlen]; exact hv
  obtain ⟨s, hs⟩ := normalizeAll_panics rs ((List.range b.verts.length).map (vertexSum (positions b) b.faces))
    (vertexSum (positions b) b.faces i) (List.mem_map.mpr ⟨i, List.mem_range.mpr hi, rfl⟩) h0
  refine ⟨s, ?_⟩
  rw [withVertexNormals_def]
  rw [accumNormals_ok _ _ hv', hlen]
  dsimp only
  rw [hs]

/-- The call returns iff all indices are in range and no vertex has a zero accumulated normal. -/
theorem withVertexNormals_isOk_iff (rs : K → K) (b : Mesh K Unit) :
    (withVertexNormals rs b).isOk = true ↔
      (∀ f ∈ b.faces, f.valid b.verts.length = true) ∧
      ∀ i, i < b.verts.length → (vertexSum (positions b) b.faces i).lenSqr ≠ 0 := by
  constructor
  · intro h
    by_contra hc
    rw [not_and_or] at hc
    rcases hc with hc | hc
    · push Not at hc
      obtain ⟨f, hf, hbad⟩ := hc
      obtain ⟨s, hs⟩ := withVertexNormals_oob rs b f hf (by simpa using hbad)
      simp [hs, Outcome.isOk] at h
    · by_cases hv : ∀ f ∈ b.faces, f.valid b.verts.length = true
      · push Not at hc
        obtain ⟨i, hi, h0⟩ := hc
        obtain ⟨s, hs⟩ := withVertexNormals_zero_sum rs b hv i hi h0
        simp [hs, Outcome.isOk] at h
      · push Not at hv
        obtain ⟨f, hf, hbad⟩ := hv
        obtain ⟨s, hs⟩ := withVertexNormals_oob rs b f hf (by simpa using hbad)
        simp [hs, Outcome.isOk] at h
  · rintro ⟨hv, hz⟩
    rw [withVertexNormals_ok rs b hv hz]; rfl

/-- A vertex that no face uses keeps the zero vector it was initialised with … -/
theorem vertexSum_unused (pos : List (V3 K)) (fs : List Face) (i : Nat) (h : used fs i = false) :
    vertexSum pos fs i = V3.zero := by
  rw [vertexSum_eq_foldl]
  have hm : ∀ f ∈ fs, mult f i = 0 := by
    intro f hf
    have := List.any_eq_false.mp h f hf
    simpa using this
  generalize (V3.zero : V3 K) = z
  induction fs generalizing z with
  | nil => rfl
  | cons f fs ih =>
    have h0 : mult f i = 0 := hm f (by simp)
    have : specStep pos i z f = z := by
      unfold specStep
      cases faceNormal? pos f <;> simp [h0, addTimes]
    rw [List.foldl_cons, this]
    exact ih (by
      simp only [used, List.any_cons, Bool.or_eq_false_iff] at h
      exact h.2) (fun g hg => hm g (by simp [hg])) z

/-- … so **a valid mesh with an unused vertex makes `with_vertex_normals` panic** (debug profile; NaN
normals in release). This is the code's behaviour, reported as a candidate finding in design/U01.md. -/
theorem withVertexNormals_unused_vertex_panics (rs : K → K) (b : Mesh K Unit)
    (hv : ∀ f ∈ b.faces, f.valid b.verts.length = true) (i : Nat) (hi : i < b.verts.length)
    (hu : used b.faces i = false) : ∃ s, withVertexNormals rs b = .panic s := by
  refine withVertexNormals_zero_sum rs b hv i hi ?_
  rw [vertexSum_unused _ _ _ hu]
  simp [V3.zero, V3.lenSqr, dot3]

/-- Concrete witness: one triangle and a fourth, unused vertex (every index in range). -/
theorem withVertexNormals_unused_witness :
    let b : Mesh ℚ Unit := ⟨[⟨0, 1, 2⟩], [(⟨0, 0, 0⟩, ()), (⟨1, 0, 0⟩, ()), (⟨0, 1, 0⟩, ()), (⟨5, 5, 5⟩, ())]⟩
    (build b).isOk = true ∧ (withVertexNormals (fun _ => 1) b).isOk = false := by
  constructor <;> decide +kernel

/-- The contract of the reciprocal square root: the positive root of `1 / x`. -/
def RsSpec (rs : K → K) : Prop := ∀ x, 0 < x → 0 ≤ rs x ∧ rs x * rs x * x = 1

theorem lenSqr_nonneg (v : V3 K) : 0 ≤ v.lenSqr := by
  obtain ⟨x, y, z⟩ := v
  simp only [V3.lenSqr, dot3]
  nlinarith [mul_self_nonneg x, mul_self_nonneg y, mul_self_nonneg z]

theorem lenSqr_smul (v : V3 K) (c : K) : (v.smul c).lenSqr = v.lenSqr * (c * c) := by
  obtain ⟨x, y, z⟩ := v
  simp only [V3.lenSqr, V3.smul, dot3]; ring

/-- Every computed vertex normal has unit length (given the reciprocal-square-root contract). -/
theorem normal_unit (rs : K → K) (hrs : RsSpec rs) (v : V3 K) (h : v.lenSqr ≠ 0) :
    (v.smul (rs v.lenSqr)).lenSqr = 1 := by
  have hpos : 0 < v.lenSqr := lt_of_le_of_ne (lenSqr_nonneg v) (Ne.symm h)
  rw [lenSqr_smul]
  have := (hrs _ hpos).2
  linarith [this, mul_comm (v.lenSqr) (rs v.lenSqr * rs v.lenSqr)]

/-- The normals the result stores (`withVertexNormals_ok`) are all unit vectors. -/
theorem withVertexNormals_unit (rs : K → K) (hrs : RsSpec rs) (b : Mesh K Unit) (i : Nat)
    (hz : (vertexSum (positions b) b.faces i).lenSqr ≠ 0) :
    ((vertexSum (positions b) b.faces i).smul (rs (vertexSum (positions b) b.faces i).lenSqr)).lenSqr = 1 :=
  normal_unit rs hrs _ hz

/-! ### planar, consistently oriented meshes -/

theorem smul_add_smul (u : V3 K) (a c : K) : (u.smul a).add (u.smul c) = u.smul (a + c) := by
  obtain ⟨x, y, z⟩ := u
  simp only [V3.smul, V3.add, V3.mk.injEq]
  refine ⟨?_, ?_, ?_⟩ <;> ring

theorem addTimes_smul (u : V3 K) (a c : K) (m : Nat) :
    addTimes (u.smul a) (u.smul c) m = u.smul (a + m * c) := by
  induction m with
  | zero => simp [addTimes]
  | succ m ih => rw [addTimes, ih, smul_add_smul]; congr 1; push_cast; ring

/-- If every face normal is a non-negative multiple of one vector `u`, so is every vertex sum. -/
theorem vertexSum_planar (pos : List (V3 K)) (fs : List Face) (u : V3 K)
    (hf : ∀ f ∈ fs, ∃ k, 0 ≤ k ∧ faceNormal? pos f = some (u.smul k)) (i : Nat) :
    ∃ c, 0 ≤ c ∧ vertexSum pos fs i = u.smul c := by
  rw [vertexSum_eq_foldl]
  have hz : (V3.zero : V3 K) = u.smul 0 := by
    obtain ⟨x, y, z⟩ := u; simp [V3.zero, V3.smul]
  rw [hz]
  have : ∀ c0 : K, 0 ≤ c0 → ∃ c, 0 ≤ c ∧ fs.foldl (specStep pos i) (u.smul c0) = u.smul c := by
    induction fs with
    | nil => intro c0 h0; exact ⟨c0, h0, rfl⟩
    | cons f fs ih =>
      intro c0 h0
      obtain ⟨k, hk, hn⟩ := hf f (by simp)
      rw [List.foldl_cons]
      have : specStep pos i (u.smul c0) f = u.smul (c0 + (mult f i : K) * k) := by
        simp [specStep, hn, addTimes_smul]
      rw [this]
      exact ih (fun g hg => hf g (by simp [hg])) _ (by positivity)
  exact this 0 le_rfl

/-- **Planar mesh.** If all faces have normals that are non-negative multiples of one unit vector `u`
(a planar mesh with consistently oriented faces), every vertex normal that is computed equals `u`. -/
theorem planar_normal_eq (rs : K → K) (hrs : RsSpec rs) (pos : List (V3 K)) (fs : List Face) (u : V3 K)
    (hu : u.lenSqr = 1) (hf : ∀ f ∈ fs, ∃ k, 0 ≤ k ∧ faceNormal? pos f = some (u.smul k)) (i : Nat)
    (hz : (vertexSum pos fs i).lenSqr ≠ 0) :
    (vertexSum pos fs i).smul (rs (vertexSum pos fs i).lenSqr) = u := by
  obtain ⟨c, hc, hs⟩ := vertexSum_planar pos fs u hf i
  rw [hs] at hz ⊢
  rw [lenSqr_smul, hu, one_mul] at hz ⊢
  have hc0 : c ≠ 0 := fun h => hz (by rw [h]; ring)
  have hcpos : 0 < c := lt_of_le_of_ne hc (Ne.symm hc0)
  obtain ⟨h1, h2⟩ := hrs (c * c) (by positivity)
  -- t = c · rs(c²) is non-negative with t² = 1, hence 1
  have ht : c * rs (c * c) = 1 := by
    have hnn : 0 ≤ c * rs (c * c) := mul_nonneg hc h1
    have hsq : (c * rs (c * c)) * (c * rs (c * c)) = 1 := by linarith [h2, mul_comm (c*c) (rs (c*c) * rs (c*c))]
    nlinarith
  obtain ⟨x, y, z⟩ := u
  simp only [V3.smul, V3.mk.injEq]
  refine ⟨?_, ?_, ?_⟩
  · rw [mul_assoc, ht, mul_one]
  · rw [mul_assoc, ht, mul_one]
  · rw [mul_assoc, ht, mul_one]

/-- Non-vacuity: the unit square in the plane `z = 0`, two faces of the same orientation. -/
example :
    let pos : List (V3 ℚ) := [⟨0, 0, 0⟩, ⟨1, 0, 0⟩, ⟨1, 1, 0⟩, ⟨0, 1, 0⟩]
    ∀ f ∈ ([⟨0, 1, 2⟩, ⟨0, 2, 3⟩] : List Face), ∃ k : ℚ, 0 ≤ k ∧ faceNormal? pos f = some ((⟨0, 0, 1⟩ : V3 ℚ).smul k) := by
  intro pos f hf
  simp only [List.mem_cons, List.not_mem_nil, or_false] at hf
  rcases hf with rfl | rfl
  · exact ⟨1, by norm_num, by simp [pos, faceNormal?, cross, V3.sub, V3.smul]⟩
  · exact ⟨1, by norm_num, by simp [pos, faceNormal?, cross, V3.sub, V3.smul]⟩

/-- The repo's own test mesh (mesh.rs:289): three faces of a tetrahedron corner; the model returns. -/
example :
    (withVertexNormals (fun _ => (1 : ℚ))
      ⟨[⟨0, 2, 1⟩, ⟨0, 1, 3⟩, ⟨0, 3, 2⟩], [(⟨0, 0, 0⟩, ()), (⟨1, 0, 0⟩, ()), (⟨0, 1, 0⟩, ()), (⟨0, 0, 1⟩, ())]⟩).isOk = true := by
  decide +kernel

end Normals

end Retro.Props.U01
