/-
U01 (part 3) — theorems about `Retro.Model.StatsUtil` (`core/src/render/stats.rs`): `+=`, `per_sec`,
`per_frame`, `human_num`, `human_time`.

The formatting theorems are stated for the exact-arithmetic reading `rnd = id` of the model and, where
it matters, for an arbitrary rounding with a relative error bound (`RelRound`), which `f32`
round-to-nearest satisfies with `ε = 2⁻²⁴` on the normal range.
-/
import Retro.Model.StatsUtil
import Retro.Lemmas.F32Nearest
import Mathlib.Tactic.Ring
import Mathlib.Tactic.Linarith
import Mathlib.Tactic.Positivity
import Mathlib.Tactic.NormNum
import Mathlib.Tactic.FieldSimp
import Mathlib.Algebra.Order.Field.Basic
import Mathlib.Algebra.Order.Floor.Ring
import Mathlib.Data.Rat.Floor

set_option linter.unusedSectionVars false
set_option linter.unusedVariables false

namespace Retro.Props.U01
open Retro Retro.StatsUtil

/-! ## `AddAssign` (stats.rs:197-214) -/

theorem usizeAdd_ok_iff (a b r : Nat) : usizeAdd a b = .ok r ↔ r = a + b ∧ a + b ≤ usizeMax := by
  unfold usizeAdd; by_cases h : a + b ≤ usizeMax <;> simp [h, eq_comm]

theorem durAdd_ok_iff (a b r : Nat) : durAdd a b = .ok r ↔ r = a + b ∧ a + b ≤ durMax := by
  unfold durAdd; by_cases h : a + b ≤ durMax <;> simp [h, eq_comm]

/-- `Throughput +=`: component-wise; panics exactly when a counter would exceed `usize::MAX`. -/
theorem tpAdd_ok_iff (a b r : Throughput) :
    tpAdd a b = .ok r ↔ r = ⟨a.i + b.i, a.o + b.o⟩ ∧ a.i + b.i ≤ usizeMax ∧ a.o + b.o ≤ usizeMax := by
  unfold tpAdd usizeAdd
  by_cases h1 : a.i + b.i ≤ usizeMax <;> by_cases h2 : a.o + b.o ≤ usizeMax <;> simp [h1, h2, eq_comm]

theorem usizeAdd_comm (a b : Nat) : usizeAdd a b = usizeAdd b a := by
  unfold usizeAdd; rw [Nat.add_comm]
theorem durAdd_comm (a b : Nat) : durAdd a b = durAdd b a := by
  unfold durAdd; rw [Nat.add_comm]
theorem tpAdd_comm (a b : Throughput) : tpAdd a b = tpAdd b a := by
  unfold tpAdd; rw [usizeAdd_comm a.i, usizeAdd_comm a.o]

/-- No field of `a += b` overflows. -/
def NoOverflow (a b : Stats) : Prop :=
  a.time + b.time ≤ durMax ∧
  (a.objs.i + b.objs.i ≤ usizeMax ∧ a.objs.o + b.objs.o ≤ usizeMax) ∧
  (a.prims.i + b.prims.i ≤ usizeMax ∧ a.prims.o + b.prims.o ≤ usizeMax) ∧
  (a.verts.i + b.verts.i ≤ usizeMax ∧ a.verts.o + b.verts.o ≤ usizeMax) ∧
  (a.frags.i + b.frags.i ≤ usizeMax ∧ a.frags.o + b.frags.o ≤ usizeMax)

/-- The component-wise sum. -/
def Stats.sum (a b : Stats) : Stats :=
  ⟨a.time + b.time, a.calls + b.calls, a.frames + b.frames,
   ⟨a.objs.i + b.objs.i, a.objs.o + b.objs.o⟩, ⟨a.prims.i + b.prims.i, a.prims.o + b.prims.o⟩,
   ⟨a.verts.i + b.verts.i, a.verts.o + b.verts.o⟩, ⟨a.frags.i + b.frags.i, a.frags.o + b.frags.o⟩⟩

/-- **`Stats +=` is component-wise addition**, and it returns exactly when no counter and not the duration
overflows (overflow-checks profile); otherwise it panics. -/
theorem statsAdd_ok_iff (a b r : Stats) : statsAdd id a b = .ok r ↔ r = Stats.sum a b ∧ NoOverflow a b := by
  unfold statsAdd NoOverflow
  cases ht : durAdd a.time b.time with
  | panic s =>
    have : ¬ a.time + b.time ≤ durMax := fun h => by
      have := (durAdd_ok_iff a.time b.time _).mpr ⟨rfl, h⟩; rw [ht] at this; cases this
    simp [this]
  | ok t =>
    obtain ⟨rfl, h0⟩ := (durAdd_ok_iff _ _ _).mp ht
    cases h1 : tpAdd a.objs b.objs with
    | panic s =>
      have : ¬ (a.objs.i + b.objs.i ≤ usizeMax ∧ a.objs.o + b.objs.o ≤ usizeMax) := fun h => by
        have := (tpAdd_ok_iff a.objs b.objs _).mpr ⟨rfl, h⟩; rw [h1] at this; cases this
      simp [this]
    | ok o1 =>
      obtain ⟨rfl, g1⟩ := (tpAdd_ok_iff _ _ _).mp h1
      cases h2 : tpAdd a.prims b.prims with
      | panic s =>
        have : ¬ (a.prims.i + b.prims.i ≤ usizeMax ∧ a.prims.o + b.prims.o ≤ usizeMax) := fun h => by
          have := (tpAdd_ok_iff a.prims b.prims _).mpr ⟨rfl, h⟩; rw [h2] at this; cases this
        simp [this]
      | ok o2 =>
        obtain ⟨rfl, g2⟩ := (tpAdd_ok_iff _ _ _).mp h2
        cases h3 : tpAdd a.verts b.verts with
        | panic s =>
          have : ¬ (a.verts.i + b.verts.i ≤ usizeMax ∧ a.verts.o + b.verts.o ≤ usizeMax) := fun h => by
            have := (tpAdd_ok_iff a.verts b.verts _).mpr ⟨rfl, h⟩; rw [h3] at this; cases this
          simp [this]
        | ok o3 =>
          obtain ⟨rfl, g3⟩ := (tpAdd_ok_iff _ _ _).mp h3
          cases h4 : tpAdd a.frags b.frags with
          | panic s =>
            have : ¬ (a.frags.i + b.frags.i ≤ usizeMax ∧ a.frags.o + b.frags.o ≤ usizeMax) := fun h => by
              have := (tpAdd_ok_iff a.frags b.frags _).mpr ⟨rfl, h⟩; rw [h4] at this; cases this
            simp [this]
          | ok o4 =>
            obtain ⟨rfl, g4⟩ := (tpAdd_ok_iff _ _ _).mp h4
            simp only [Outcome.ok.injEq, id, h0, g1, g2, g3, g4, and_self, and_true]
            exact ⟨fun h => h ▸ rfl, fun h => h ▸ rfl⟩

theorem statsAdd_panic_iff (a b : Stats) : (∃ s, statsAdd id a b = .panic s) ↔ ¬ NoOverflow a b := by
  constructor
  · rintro ⟨s, hs⟩ hn
    have := (statsAdd_ok_iff a b _).mpr ⟨rfl, hn⟩
    rw [hs] at this; cases this
  · intro hn
    cases h : statsAdd id a b with
    | panic s => exact ⟨s, rfl⟩
    | ok r => exact absurd ((statsAdd_ok_iff a b r).mp h).2 hn

/-- commutative (as outcomes, including which panic) -/
theorem statsAdd_comm (a b : Stats) : statsAdd id a b = statsAdd id b a := by
  unfold statsAdd
  rw [durAdd_comm a.time, tpAdd_comm a.objs, tpAdd_comm a.prims, tpAdd_comm a.verts, tpAdd_comm a.frags,
    add_comm a.calls, add_comm a.frames]

theorem Stats.sum_assoc (a b c : Stats) : Stats.sum (Stats.sum a b) c = Stats.sum a (Stats.sum b c) := by
  simp only [Stats.sum, add_assoc]

theorem Stats.sum_comm (a b : Stats) : Stats.sum a b = Stats.sum b a := by
  simp only [Stats.sum, add_comm]

/-- associative: both bracketings return iff the total fits, and then they return the same value -/
theorem statsAdd_assoc (a b c ab bc r : Stats) (h1 : statsAdd id a b = .ok ab) (h2 : statsAdd id b c = .ok bc) :
    statsAdd id ab c = .ok r ↔ statsAdd id a bc = .ok r := by
  obtain ⟨rfl, n1⟩ := (statsAdd_ok_iff a b ab).mp h1
  obtain ⟨rfl, n2⟩ := (statsAdd_ok_iff b c bc).mp h2
  rw [statsAdd_ok_iff, statsAdd_ok_iff, Stats.sum_assoc]
  unfold NoOverflow Stats.sum at *
  simp only
  constructor <;> (rintro ⟨rfl, h⟩; refine ⟨rfl, ?_⟩; omega)

/-- `Stats::default()` is the unit (any value whose fields are themselves representable). -/
def InRange (a : Stats) : Prop :=
  a.time ≤ durMax ∧ a.objs.i ≤ usizeMax ∧ a.objs.o ≤ usizeMax ∧ a.prims.i ≤ usizeMax ∧ a.prims.o ≤ usizeMax ∧
  a.verts.i ≤ usizeMax ∧ a.verts.o ≤ usizeMax ∧ a.frags.i ≤ usizeMax ∧ a.frags.o ≤ usizeMax

theorem statsAdd_default_left (a : Stats) (h : InRange a) : statsAdd id Stats.default a = .ok a := by
  rw [statsAdd_ok_iff]
  unfold InRange at h
  refine ⟨?_, ?_⟩
  · obtain ⟨t, c, f, ⟨a1, a2⟩, ⟨a3, a4⟩, ⟨a5, a6⟩, ⟨a7, a8⟩⟩ := a
    simp [Stats.sum, Stats.default]
  · unfold NoOverflow Stats.default; simp only; omega

theorem statsAdd_default_right (a : Stats) (h : InRange a) : statsAdd id a Stats.default = .ok a := by
  rw [statsAdd_comm]; exact statsAdd_default_left a h

example : InRange ⟨4321000000, 5678, 1234, ⟨12345, 4321⟩, ⟨1, 2⟩, ⟨3, 4⟩, ⟨5, 6⟩⟩ := by
  unfold InRange durMax usizeMax; simp

/-- Several `+=`: the running total is the fold of the component-wise sum. -/
theorem statsSum_ok (acc : Stats) (ss : List Stats) (r : Stats) (h : statsSum id acc ss = .ok r) :
    r = ss.foldl Stats.sum acc := by
  induction ss generalizing acc with
  | nil => simp [statsSum] at h; simp [h]
  | cons s ss ih =>
    simp only [statsSum] at h
    cases ha : statsAdd id acc s with
    | panic m => simp [ha] at h
    | ok acc' =>
      simp only [ha] at h
      obtain ⟨rfl, -⟩ := (statsAdd_ok_iff acc s acc').mp ha
      simpa using ih _ h

/-- overflow witnesses -/
example : (tpAdd ⟨usizeMax, 0⟩ ⟨1, 0⟩).isOk = false := by decide
example : (durAdd durMax 1).isOk = false := by decide

/-! ## `per_sec`, `per_frame` (stats.rs:81-143), exact arithmetic -/

theorem asSecs_id (t : Nat) : asSecs id t = (t : ℚ) / 1000000000 := by
  unfold asSecs nanosPerSec
  simp only [id]
  have h := Nat.div_add_mod t 1000000000
  have hq : (t : ℚ) = 1000000000 * ((t / 1000000000 : ℕ) : ℚ) + ((t % 1000000000 : ℕ) : ℚ) := by
    exact_mod_cast h.symm
  rw [hq]
  push_cast
  field_simp

/-- The divisor of `per_sec` is positive: one second for a zero duration, else the duration in seconds. -/
theorem secsOf_id (t : Nat) : secsOf id t = if t = 0 then 1 else (t : ℚ) / 1000000000 := by
  unfold secsOf; rw [asSecs_id]

theorem secsOf_pos (t : Nat) : 0 < secsOf id t := by
  rw [secsOf_id]
  split_ifs with h
  · norm_num
  · have : 0 < (t : ℚ) := by exact_mod_cast Nat.pos_of_ne_zero h
    positivity

theorem toUsize_of_nonneg (x : ℚ) (h : 0 ≤ x) : toUsize x = min x.floor.toNat usizeMax := by
  simp [toUsize, not_lt.mpr h]

/-- A `(count as f32 / secs) as usize` counter: the floor of the quotient, saturated at `usize::MAX`. -/
theorem tpPerSec_id (secs : ℚ) (hs : 0 < secs) (tp : Throughput) :
    tpPerSec id secs tp = ⟨min ⌊(tp.i : ℚ) / secs⌋.toNat usizeMax, min ⌊(tp.o : ℚ) / secs⌋.toNat usizeMax⟩ := by
  unfold tpPerSec
  simp only [id]
  rw [toUsize_of_nonneg _ (by positivity), toUsize_of_nonneg _ (by positivity)]
  rfl

/-- **`per_sec`**: every field divided by the duration in seconds (one second if the duration is zero),
counters truncated and saturated, the duration set to one second. -/
theorem perSec_id (s : Stats) :
    perSec id s = { time := 1000000000, calls := s.calls / secsOf id s.time, frames := s.frames / secsOf id s.time,
                    objs := tpPerSec id (secsOf id s.time) s.objs, prims := tpPerSec id (secsOf id s.time) s.prims,
                    verts := tpPerSec id (secsOf id s.time) s.verts, frags := tpPerSec id (secsOf id s.time) s.frags } := rfl

/-- The truncated counter brackets the exact rate (below saturation). -/
theorem perSec_counter_bounds (secs : ℚ) (hs : 0 < secs) (n : Nat) (hn : ⌊(n : ℚ) / secs⌋.toNat ≤ usizeMax) :
    let r := (tpPerSec id secs ⟨n, 0⟩).i
    (r : ℚ) ≤ n / secs ∧ (n : ℚ) / secs < r + 1 := by
  intro r
  have hr : r = ⌊(n : ℚ) / secs⌋.toNat := by
    simp only [r, tpPerSec_id secs hs]; exact min_eq_left hn
  have hnn : 0 ≤ ⌊(n : ℚ) / secs⌋ := Int.floor_nonneg.mpr (by positivity)
  have hc : ((⌊(n : ℚ) / secs⌋.toNat : ℕ) : ℚ) = ((⌊(n : ℚ) / secs⌋ : ℤ) : ℚ) := by
    have : ((⌊(n : ℚ) / secs⌋.toNat : ℕ) : ℤ) = ⌊(n : ℚ) / secs⌋ := Int.toNat_of_nonneg hnn
    exact_mod_cast this
  rw [hr, hc]
  exact ⟨Int.floor_le _, Int.lt_floor_add_one _⟩

theorem max1_ge_one (x : ℚ) : 1 ≤ max1 x := by
  unfold max1; split_ifs with h
  · exact le_refl 1
  · exact not_lt.mp h

/-- The integer divisor of `per_frame` is never zero. -/
theorem perFrame_divisor_pos (frames : ℚ) : 1 ≤ toUsize (max1 frames) := by
  have h1 := max1_ge_one frames
  rw [toUsize_of_nonneg _ (by linarith)]
  have hf : (1 : ℤ) ≤ ⌊max1 frames⌋ := Int.le_floor.mpr (by exact_mod_cast h1)
  have : 1 ≤ ⌊max1 frames⌋.toNat := by omega
  exact le_min this (by decide)

/-- **`per_frame`**: counters are integer quotients by `⌊max(frames, 1)⌋` (a fractional frame count is
truncated for the counters but not for `calls` and `time`), `frames` becomes 1. -/
theorem perFrame_id (s : Stats) :
    (perFrame id s).frames = 1 ∧ (perFrame id s).calls = s.calls / max1 s.frames ∧
    (perFrame id s).time = (roundNearestEven ((s.time : ℚ) / max1 s.frames)).toNat ∧
    (perFrame id s).objs = ⟨s.objs.i / toUsize (max1 s.frames), s.objs.o / toUsize (max1 s.frames)⟩ ∧
    (perFrame id s).frags = ⟨s.frags.i / toUsize (max1 s.frames), s.frags.o / toUsize (max1 s.frames)⟩ :=
  ⟨rfl, rfl, rfl, rfl, rfl⟩

theorem perFrame_counter_bounds (frames : ℚ) (n : Nat) :
    let k := toUsize (max1 frames)
    k * (n / k) ≤ n ∧ n < k * (n / k + 1) := by
  intro k
  have hk : 0 < k := perFrame_divisor_pos frames
  exact ⟨Nat.mul_div_le n k, Nat.lt_mul_div_succ n hk⟩

/-- whole frames: the divisor is the frame count itself -/
theorem perFrame_whole (k : Nat) (hk : 1 ≤ k) (hu : k ≤ usizeMax) : toUsize (max1 (k : ℚ)) = k := by
  have h1 : ¬ ((k : ℚ) < 1) := by
    have : (1 : ℚ) ≤ k := by exact_mod_cast hk
    linarith
  simp only [max1, h1, if_false]
  rw [toUsize_of_nonneg _ (by positivity)]
  show min ⌊(k : ℚ)⌋.toNat usizeMax = k
  rw [Int.floor_natCast, Int.toNat_natCast]
  exact min_eq_left hu

/-! ## `human_num` (stats.rs:216-232) -/

/-- `{:.1}` of a non-negative value is within half a tenth of it. -/
theorem tenthsOf_close (x : ℚ) (h : 0 ≤ x) : |(tenthsOf x : ℚ) / 10 - x| ≤ 1 / 20 := by
  unfold tenthsOf
  have h0 : (0 : ℤ) ≤ roundNearestEven (x * 10) := F32.rne_ge (k := 0) (by push_cast; positivity)
  have hc : (((roundNearestEven (x * 10)).toNat : ℕ) : ℚ) = ((roundNearestEven (x * 10) : ℤ) : ℚ) := by
    have : (((roundNearestEven (x * 10)).toNat : ℕ) : ℤ) = roundNearestEven (x * 10) := Int.toNat_of_nonneg h0
    exact_mod_cast this
  rw [hc]
  have := F32.rne_half (x * 10)
  rw [abs_le] at this ⊢
  constructor <;> linarith [this.1, this.2]

theorem unitValue_k : unitValue 'k' = 1000 := by simp [unitValue]
theorem unitValue_M : unitValue 'M' = 1000000 := by simp [unitValue]
theorem unitValue_G : unitValue 'G' = 1000000000 := by simp [unitValue]

/-- below 1000: printed exactly (any rounding) -/
theorem humanNum_plain (rnd : ℚ → ℚ) (n : Nat) (h : n < 1000) :
    humanNum rnd n = .plain n ∧ (humanNum rnd n).value = n := by
  simp [humanNum, h, HNum.value]

/-- 1 000 … 99 999: one decimal of thousands, within 0.05 k of `n` in exact arithmetic … -/
theorem humanNum_k (n : Nat) (h1 : 1000 ≤ n) (h2 : n < 100000) :
    humanNum id n = .dec (tenthsOf ((n : ℚ) / 1000)) 'k' ∧ |(humanNum id n).value - n| ≤ 50 := by
  have e : humanNum id n = .dec (tenthsOf ((n : ℚ) / 1000)) 'k' := by
    simp [humanNum, not_lt.mpr h1, h2]
  refine ⟨e, ?_⟩
  rw [e]
  have := tenthsOf_close ((n : ℚ) / 1000) (by positivity)
  simp only [HNum.value, unitValue_k]
  rw [abs_le] at this ⊢
  norm_num at this ⊢
  constructor <;> linarith [this.1, this.2]

/-- … 100 000 … 999 999: whole thousands, TRUNCATED (up to one unit below `n`) … -/
theorem humanNum_int_k (rnd : ℚ → ℚ) (n : Nat) (h1 : 100000 ≤ n) (h2 : n < 1000000) :
    humanNum rnd n = .int (n / 1000) 'k' ∧
    (humanNum rnd n).value ≤ n ∧ (n : ℚ) < (humanNum rnd n).value + 1000 := by
  have e : humanNum rnd n = .int (n / 1000) 'k' := by
    have a1 : ¬ n < 1000 := by omega
    have a2 : ¬ n < 100000 := by omega
    simp [humanNum, a1, a2, h2]
  refine ⟨e, ?_⟩
  rw [e]
  simp only [HNum.value, unitValue_k]
  have hle : 1000 * (n / 1000) ≤ n := Nat.mul_div_le n 1000
  have hlt : n < 1000 * (n / 1000 + 1) := Nat.lt_mul_div_succ n (by norm_num)
  have hle' : (((1000 * (n / 1000) : ℕ)) : ℚ) ≤ n := by exact_mod_cast hle
  have hlt' : (n : ℚ) < ((1000 * (n / 1000 + 1) : ℕ) : ℚ) := by exact_mod_cast hlt
  push_cast at hle' hlt'
  constructor <;> linarith

/-- … millions with one decimal … -/
theorem humanNum_M (n : Nat) (h1 : 1000000 ≤ n) (h2 : n < 100000000) :
    humanNum id n = .dec (tenthsOf ((n : ℚ) / 1000000)) 'M' ∧ |(humanNum id n).value - n| ≤ 50000 := by
  have e : humanNum id n = .dec (tenthsOf ((n : ℚ) / 1000000)) 'M' := by
    have a1 : ¬ n < 1000 := by omega
    have a2 : ¬ n < 100000 := by omega
    have a3 : ¬ n < 1000000 := by omega
    simp [humanNum, a1, a2, a3, h2]
  refine ⟨e, ?_⟩
  rw [e]
  have := tenthsOf_close ((n : ℚ) / 1000000) (by positivity)
  simp only [HNum.value, unitValue_M]
  rw [abs_le] at this ⊢
  norm_num at this ⊢
  constructor <;> linarith [this.1, this.2]

/-- … whole millions, truncated … -/
theorem humanNum_int_M (rnd : ℚ → ℚ) (n : Nat) (h1 : 100000000 ≤ n) (h2 : n < 1000000000) :
    humanNum rnd n = .int (n / 1000000) 'M' ∧
    (humanNum rnd n).value ≤ n ∧ (n : ℚ) < (humanNum rnd n).value + 1000000 := by
  have e : humanNum rnd n = .int (n / 1000000) 'M' := by
    have a1 : ¬ n < 1000 := by omega
    have a2 : ¬ n < 100000 := by omega
    have a3 : ¬ n < 1000000 := by omega
    have a4 : ¬ n < 100000000 := by omega
    simp [humanNum, a1, a2, a3, a4, h2]
  refine ⟨e, ?_⟩
  rw [e]
  simp only [HNum.value, unitValue_M]
  have hle : 1000000 * (n / 1000000) ≤ n := Nat.mul_div_le n 1000000
  have hlt : n < 1000000 * (n / 1000000 + 1) := Nat.lt_mul_div_succ n (by norm_num)
  have hle' : (((1000000 * (n / 1000000) : ℕ)) : ℚ) ≤ n := by exact_mod_cast hle
  have hlt' : (n : ℚ) < ((1000000 * (n / 1000000 + 1) : ℕ) : ℚ) := by exact_mod_cast hlt
  push_cast at hle' hlt'
  constructor <;> linarith

/-- … and billions with one decimal up to 10¹¹. -/
theorem humanNum_G (n : Nat) (h1 : 1000000000 ≤ n) (h2 : n < 100000000000) :
    humanNum id n = .dec (tenthsOf ((n : ℚ) / 1000000000)) 'G' ∧ |(humanNum id n).value - n| ≤ 50000000 := by
  have e : humanNum id n = .dec (tenthsOf ((n : ℚ) / 1000000000)) 'G' := by
    have a1 : ¬ n < 1000 := by omega
    have a2 : ¬ n < 100000 := by omega
    have a3 : ¬ n < 1000000 := by omega
    have a4 : ¬ n < 100000000 := by omega
    have a5 : ¬ n < 1000000000 := by omega
    simp [humanNum, a1, a2, a3, a4, a5, h2]
  refine ⟨e, ?_⟩
  rw [e]
  have := tenthsOf_close ((n : ℚ) / 1000000000) (by positivity)
  simp only [HNum.value, unitValue_G]
  rw [abs_le] at this ⊢
  norm_num at this ⊢
  constructor <;> linarith [this.1, this.2]

/-- A rounding with relative error at most `ε` (for `f32` round-to-nearest: `ε = 2⁻²⁴` on the normal range). -/
def RelRound (rnd : ℚ → ℚ) (ε : ℚ) : Prop := ∀ x, |rnd x - x| ≤ ε * |x|

/-- The decimal brackets under ANY rounding with relative error `ε ≤ 1`: the printed value is within half
a tenth of a unit plus the two roundings' relative error `(2ε + ε²)·n`. -/
theorem dec_error (rnd : ℚ → ℚ) (ε : ℚ) (h0 : 0 ≤ ε) (h1 : ε ≤ 1) (hr : RelRound rnd ε) (n : Nat) (u : ℚ) (hu : 0 < u) :
    |(tenthsOf (rnd (rnd (n : ℚ) / u)) : ℚ) / 10 * u - n| ≤ u / 20 + (2 * ε + ε * ε) * n := by
  have hn : (0 : ℚ) ≤ n := by positivity
  have r1 := hr (n : ℚ)
  rw [abs_of_nonneg hn] at r1
  have a1 : 0 ≤ rnd (n : ℚ) := by
    rw [abs_le] at r1; nlinarith [r1.1]
  have hq : 0 ≤ rnd (n : ℚ) / u := div_nonneg a1 hu.le
  have r2 := hr (rnd (n : ℚ) / u)
  rw [abs_of_nonneg hq] at r2
  have a2 : 0 ≤ rnd (rnd (n : ℚ) / u) := by
    rw [abs_le] at r2; nlinarith [r2.1]
  have t := tenthsOf_close _ a2
  -- |x'' − n/u| ≤ (2ε + ε²)·n/u
  have e1 : |rnd (n : ℚ) / u - n / u| ≤ ε * n / u := by
    rw [← sub_div, abs_div, abs_of_pos hu]
    exact div_le_div_of_nonneg_right r1 hu.le
  have e2 : rnd (n : ℚ) / u ≤ (1 + ε) * n / u := by
    rw [abs_le] at e1; have := e1.2; rw [sub_le_iff_le_add] at this
    calc rnd (n : ℚ) / u ≤ ε * n / u + n / u := this
      _ = (1 + ε) * n / u := by ring
  have e3 : |rnd (rnd (n : ℚ) / u) - n / u| ≤ (2 * ε + ε * ε) * n / u := by
    have : |rnd (rnd (n : ℚ) / u) - n / u| ≤ |rnd (rnd (n : ℚ) / u) - rnd (n : ℚ) / u| + |rnd (n : ℚ) / u - n / u| := by
      have := abs_add_le (rnd (rnd (n : ℚ) / u) - rnd (n : ℚ) / u) (rnd (n : ℚ) / u - n / u)
      simpa using this
    have b : ε * (rnd (n : ℚ) / u) ≤ ε * ((1 + ε) * n / u) := mul_le_mul_of_nonneg_left e2 h0
    calc |rnd (rnd (n : ℚ) / u) - n / u| ≤ ε * (rnd (n : ℚ) / u) + ε * n / u := by linarith
      _ ≤ ε * ((1 + ε) * n / u) + ε * n / u := by linarith
      _ = (2 * ε + ε * ε) * n / u := by ring
  -- assemble, multiplying by u
  have key : |(tenthsOf (rnd (rnd (n : ℚ) / u)) : ℚ) / 10 - n / u| ≤ 1 / 20 + (2 * ε + ε * ε) * n / u := by
    have := abs_add_le ((tenthsOf (rnd (rnd (n : ℚ) / u)) : ℚ) / 10 - rnd (rnd (n : ℚ) / u)) (rnd (rnd (n : ℚ) / u) - n / u)
    have h' : (tenthsOf (rnd (rnd (n : ℚ) / u)) : ℚ) / 10 - rnd (rnd (n : ℚ) / u) + (rnd (rnd (n : ℚ) / u) - n / u)
        = (tenthsOf (rnd (rnd (n : ℚ) / u)) : ℚ) / 10 - n / u := by ring
    rw [h'] at this
    linarith
  have hmul : (tenthsOf (rnd (rnd (n : ℚ) / u)) : ℚ) / 10 * u - n = ((tenthsOf (rnd (rnd (n : ℚ) / u)) : ℚ) / 10 - n / u) * u := by
    field_simp
  rw [hmul, abs_mul, abs_of_pos hu]
  calc |(tenthsOf (rnd (rnd (n : ℚ) / u)) : ℚ) / 10 - n / u| * u ≤ (1 / 20 + (2 * ε + ε * ε) * n / u) * u :=
        mul_le_mul_of_nonneg_right key hu.le
    _ = u / 20 + (2 * ε + ε * ε) * n := by field_simp

example : RelRound id 0 := fun x => by simp

/-- The formatting glitch at the top of every decimal bracket: 99 950 … 99 999 round to `100.0k`,
six characters instead of the five every other value below 10¹¹ gets (likewise `100.0M`, `100.0G`). -/
theorem humanNum_width_witness :
    (humanNum id 99999).chars = ['1', '0', '0', '.', '0', 'k'] ∧ (humanNum id 99949).chars = ['9', '9', '.', '9', 'k'] ∧
    (humanNum id 1234).chars = [' ', '1', '.', '2', 'k'] ∧ (humanNum id 123456).chars = [' ', '1', '2', '3', 'k'] ∧
    (humanNum id 10).chars = [' ', ' ', ' ', '1', '0'] := by
  refine ⟨?_, ?_, ?_, ?_, ?_⟩ <;> decide +kernel

/-! ### the exponent form (n ≥ 10¹¹) -/

theorem ilog10_spec (fuel n : Nat) (hn : 0 < n) (hf : n < 10 ^ fuel) :
    10 ^ ilog10 fuel n ≤ n ∧ n < 10 ^ (ilog10 fuel n + 1) := by
  induction fuel generalizing n with
  | zero => simp at hf; omega
  | succ f ih =>
    unfold ilog10
    by_cases h : n < 10
    · simp [h]; omega
    · simp only [h, if_false]
      have h10 : 10 ≤ n := not_lt.mp h
      have hpos : 0 < n / 10 := Nat.div_pos h10 (by norm_num)
      have hlt : n / 10 < 10 ^ f := by
        rw [Nat.div_lt_iff_lt_mul (by norm_num)]
        calc n < 10 ^ (f + 1) := hf
          _ = 10 ^ f * 10 := by ring
      obtain ⟨l, u⟩ := ih (n / 10) hpos hlt
      constructor
      · calc 10 ^ (ilog10 f (n / 10) + 1) = 10 ^ ilog10 f (n / 10) * 10 := by ring
          _ ≤ n / 10 * 10 := Nat.mul_le_mul_right 10 l
          _ ≤ n := Nat.div_mul_le_self n 10
      · have : n / 10 + 1 ≤ 10 ^ (ilog10 f (n / 10) + 1) := u
        have h2 : n < (n / 10 + 1) * 10 := by omega
        calc n < (n / 10 + 1) * 10 := h2
          _ ≤ 10 ^ (ilog10 f (n / 10) + 1) * 10 := Nat.mul_le_mul_right 10 this
          _ = 10 ^ (ilog10 f (n / 10) + 1 + 1) := by ring

/-- `{n:.1e}`: a coefficient `d.d` with `1.0 ≤ d.d ≤ 9.9` and the value within half a unit of its last
digit (round half to even on the exact integer). -/
theorem expParts_spec (n : Nat) (h1 : 100 ≤ n) (h2 : n < 10 ^ 64) :
    10 ≤ (expParts n).1 ∧ (expParts n).1 ≤ 99 ∧
    |((expParts n).1 : ℚ) / 10 * ((10 ^ (expParts n).2 : ℕ) : ℚ) - n| ≤ ((10 ^ (expParts n).2 : ℕ) : ℚ) / 20 := by
  obtain ⟨lo, hi⟩ := ilog10_spec 64 n (by omega) h2
  set e := ilog10 64 n with he
  have he2 : 2 ≤ e := by
    by_contra hc
    have : e + 1 ≤ 2 := by omega
    have : 10 ^ (e + 1) ≤ 10 ^ 2 := Nat.pow_le_pow_right (by norm_num) this
    omega
  have hne : ¬ e ≤ 1 := by omega
  -- x = n / 10^(e-1) ∈ [10, 100)
  have hP : (0 : ℚ) < ((10 ^ (e - 1) : ℕ) : ℚ) := by positivity
  have hpe : (10 ^ e : ℕ) = 10 ^ (e - 1) * 10 := by
    conv_lhs => rw [show e = (e - 1) + 1 by omega]
    ring
  have hpe1 : (10 ^ (e + 1) : ℕ) = 10 ^ (e - 1) * 100 := by
    conv_lhs => rw [show e + 1 = (e - 1) + 2 by omega]
    ring
  have hx1 : (10 : ℚ) ≤ (n : ℚ) / ((10 ^ (e - 1) : ℕ) : ℚ) := by
    rw [le_div_iff₀ hP]
    have : ((10 ^ (e - 1) * 10 : ℕ) : ℚ) ≤ n := by exact_mod_cast hpe ▸ lo
    push_cast at this ⊢; linarith
  have hx2 : (n : ℚ) / ((10 ^ (e - 1) : ℕ) : ℚ) < 100 := by
    rw [div_lt_iff₀ hP]
    have : (n : ℚ) < ((10 ^ (e - 1) * 100 : ℕ) : ℚ) := by exact_mod_cast hpe1 ▸ hi
    push_cast at this ⊢; linarith
  set x := (n : ℚ) / ((10 ^ (e - 1) : ℕ) : ℚ) with hx
  have r10 : (10 : ℤ) ≤ roundNearestEven x := F32.rne_ge (k := 10) (by push_cast; exact hx1)
  have r100 : roundNearestEven x ≤ (100 : ℤ) := F32.rne_le (k := 100) (by push_cast; exact hx2.le)
  have rh := abs_le.mp (F32.rne_half x)
  have hcast : (((roundNearestEven x).toNat : ℕ) : ℚ) = ((roundNearestEven x : ℤ) : ℚ) := by
    have : (((roundNearestEven x).toNat : ℕ) : ℤ) = roundNearestEven x := Int.toNat_of_nonneg (by omega)
    exact_mod_cast this
  have hn : (n : ℚ) = x * ((10 ^ (e - 1) : ℕ) : ℚ) := by rw [hx]; field_simp
  have hE : expParts n = (if (roundNearestEven x).toNat ≥ 100 then ((roundNearestEven x).toNat / 10, e + 1)
      else ((roundNearestEven x).toNat, e)) := by
    simp only [expParts, ← he, hne, if_false, ← hx]
  rw [hE]
  have k1 := mul_le_mul_of_nonneg_right rh.1 hP.le
  have k2 := mul_le_mul_of_nonneg_right rh.2 hP.le
  by_cases ht : (roundNearestEven x).toNat ≥ 100
  · -- the coefficient reached 10.0: renormalised to 1.0 · 10^(e+1)
    have hT : (roundNearestEven x).toNat = 100 := by omega
    rw [if_pos ht, hT]
    refine ⟨by norm_num, by norm_num, ?_⟩
    have hr : ((roundNearestEven x : ℤ) : ℚ) = 100 := by rw [← hcast, hT]; norm_num
    rw [hr] at k1 k2
    have hp : ((10 ^ (e + 1) : ℕ) : ℚ) = ((10 ^ (e - 1) : ℕ) : ℚ) * 100 := by exact_mod_cast hpe1
    have h10 : ((100 / 10 : ℕ) : ℚ) = 10 := by norm_num
    show |((100 / 10 : ℕ) : ℚ) / 10 * ((10 ^ (e + 1) : ℕ) : ℚ) - n| ≤ ((10 ^ (e + 1) : ℕ) : ℚ) / 20
    rw [h10, hp, hn, abs_le]
    constructor <;> linarith
  · have hT : (roundNearestEven x).toNat ≤ 99 := by omega
    have hT10 : 10 ≤ (roundNearestEven x).toNat := by omega
    rw [if_neg ht]
    refine ⟨hT10, hT, ?_⟩
    have hp : ((10 ^ e : ℕ) : ℚ) = ((10 ^ (e - 1) : ℕ) : ℚ) * 10 := by exact_mod_cast hpe
    show |(((roundNearestEven x).toNat : ℕ) : ℚ) / 10 * ((10 ^ e : ℕ) : ℚ) - n| ≤ ((10 ^ e : ℕ) : ℚ) / 20
    rw [hcast, hp, hn, abs_le]
    constructor <;> linarith

/-- from 10¹¹ on: the exponent form, within half a unit of the last printed digit -/
theorem humanNum_exp (rnd : ℚ → ℚ) (n : Nat) (h1 : 100000000000 ≤ n) (h2 : n ≤ usizeMax) :
    humanNum rnd n = .exp (expParts n).1 (expParts n).2 ∧
    |(humanNum rnd n).value - n| ≤ ((10 ^ (expParts n).2 : ℕ) : ℚ) / 20 := by
  have e : humanNum rnd n = .exp (expParts n).1 (expParts n).2 := by
    have a1 : ¬ n < 1000 := by omega
    have a2 : ¬ n < 100000 := by omega
    have a3 : ¬ n < 1000000 := by omega
    have a4 : ¬ n < 100000000 := by omega
    have a5 : ¬ n < 1000000000 := by omega
    have a6 : ¬ n < 100000000000 := by omega
    simp [humanNum, a1, a2, a3, a4, a5, a6]
  refine ⟨e, ?_⟩
  rw [e]
  have hlt : n < 10 ^ 64 := by
    have : usizeMax < 10 ^ 64 := by decide
    omega
  exact (expParts_spec n (by omega) hlt).2.2

example : (humanNum id 123456789000).chars = ['1', '.', '2', 'e', '1', '1'] := by decide +kernel
example : (humanNum id 995000000000).chars = ['1', '.', '0', 'e', '1', '2'] := by decide +kernel
example : (humanNum id 125000000000).chars = ['1', '.', '2', 'e', '1', '1'] := by decide +kernel

/-! ## `human_time` (stats.rs:234-245) -/

/-- Below 1 ms, 1 s and 1 min: microseconds, milliseconds, seconds with one decimal, each within half a
tenth of its unit (exact arithmetic; `secs` is the duration in seconds). -/
theorem humanTime_us (secs : ℚ) (h0 : 0 ≤ secs) (h : secs < 1 / 1000) :
    humanTimeSecs id secs = .us (tenthsOf (secs * 1000000)) ∧
    |(humanTimeSecs id secs).value - secs| ≤ 1 / 20000000 := by
  have e : humanTimeSecs id secs = .us (tenthsOf (secs * 1000000)) := by
    rw [humanTimeSecs, if_pos (show secs < id (1 / 1000) from h)]; rfl
  refine ⟨e, ?_⟩
  rw [e]
  have := tenthsOf_close (secs * 1000000) (by positivity)
  simp only [HTime.value]
  rw [abs_le] at this ⊢
  constructor <;> linarith [this.1, this.2]

theorem humanTime_ms (secs : ℚ) (h0 : 1 / 1000 ≤ secs) (h : secs < 1) :
    humanTimeSecs id secs = .ms (tenthsOf (secs * 1000)) ∧
    |(humanTimeSecs id secs).value - secs| ≤ 1 / 20000 := by
  have e : humanTimeSecs id secs = .ms (tenthsOf (secs * 1000)) := by
    rw [humanTimeSecs, if_neg (show ¬ secs < id (1 / 1000) from not_lt.mpr h0), if_pos h]; rfl
  refine ⟨e, ?_⟩
  rw [e]
  have := tenthsOf_close (secs * 1000) (by positivity)
  simp only [HTime.value]
  rw [abs_le] at this ⊢
  constructor <;> linarith [this.1, this.2]

theorem humanTime_s (secs : ℚ) (h0 : 1 ≤ secs) (h : secs < 60) :
    humanTimeSecs id secs = .secs (tenthsOf secs) ∧ |(humanTimeSecs id secs).value - secs| ≤ 1 / 20 := by
  have a1 : ¬ secs < 1 / 1000 := by linarith
  have e : humanTimeSecs id secs = .secs (tenthsOf secs) := by
    rw [humanTimeSecs, if_neg (show ¬ secs < id (1 / 1000) from a1), if_neg (not_lt.mpr h0), if_pos h]
  refine ⟨e, ?_⟩
  rw [e]
  have := tenthsOf_close secs (by linarith)
  simp only [HTime.value]
  exact this

/-- From one minute on: **both** numbers are rounded to nearest — the minutes are `round(secs / 60)`, not
the whole minutes, the seconds are `round(secs mod 60)`. -/
theorem humanTime_min (secs : ℚ) (h : 60 ≤ secs) :
    humanTimeSecs id secs = .minsec (roundNearestEven (secs / 60)).toNat (roundNearestEven (mod60 secs)).toNat := by
  have a1 : ¬ secs < 1 / 1000 := by linarith
  have a2 : ¬ secs < 1 := by linarith
  have a3 : ¬ secs < 60 := by linarith
  rw [humanTimeSecs, if_neg (show ¬ secs < id (1 / 1000) from a1), if_neg a2, if_neg a3]; rfl

theorem rne_of_frac_gt_half (x : ℚ) (h : 1 / 2 < x - (x.floor : ℚ)) : roundNearestEven x = x.floor + 1 := by
  have h1 : ¬ (x - (x.floor : ℚ) < 1 / 2) := by linarith
  show (if x - (x.floor : ℚ) < 1 / 2 then x.floor else if x - (x.floor : ℚ) > 1 / 2 then x.floor + 1
    else if x.floor % 2 == 0 then x.floor else x.floor + 1) = x.floor + 1
  rw [if_neg h1, if_pos h]

/-- **The minutes are wrong in the second half of every minute**: when more than 30 s of the current minute
have passed, the printed minute count is one more than the whole minutes elapsed, while the seconds field
still shows the seconds of the current minute — so the text overstates the duration by a minute. -/
theorem humanTime_minutes_overstated (secs : ℚ) (h : 60 ≤ secs) (hhalf : 30 < mod60 secs) :
    ∃ m s, humanTimeSecs id secs = .minsec m s ∧ (m : ℤ) = ⌊secs / 60⌋ + 1 := by
  refine ⟨_, _, humanTime_min secs h, ?_⟩
  have hfr : 1 / 2 < secs / 60 - ((secs / 60).floor : ℚ) := by
    unfold mod60 at hhalf
    linarith
  rw [rne_of_frac_gt_half _ hfr]
  have hnn : 0 ≤ (secs / 60).floor := by
    show 0 ≤ ⌊secs / 60⌋
    exact Int.floor_nonneg.mpr (by positivity)
  have : ((secs / 60).floor + 1).toNat = ((secs / 60).floor + 1 : ℤ) := Int.toNat_of_nonneg (by omega)
  rw [this]
  rfl

/-- Witnesses on the real entry point (`Duration` in nanoseconds): 90 s prints `2min 30s` (150 s),
119.7 s prints `2min 60s`, and the value the repo's own test `human_times` pins for 1234 s
(= 20 min 34 s) is `21min 34s`. -/
theorem humanTime_minutes_witness :
    humanTime id 90000000000 = .minsec 2 30 ∧ (HTime.minsec 2 30).value = 150 ∧
    humanTime id 119700000000 = .minsec 2 60 ∧ humanTime id 1234000000000 = .minsec 21 34 := by
  refine ⟨?_, ?_, ?_, ?_⟩ <;> decide +kernel

/-- In the first half of a minute the text is right to the second. -/
example : humanTime id 80000000000 = .minsec 1 20 := by decide +kernel
example : (humanTime id 123000).chars = ['1', '2', '3', '.', '0', 'μ', 's'] := by decide +kernel
example : (humanTime id 1234000000).chars = ['1', '.', '2', 's'] := by decide +kernel
example : (humanTime id 1234000000000).chars = ['2', '1', 'm', 'i', 'n', ' ', '3', '4', 's'] := by decide +kernel

end Retro.Props.U01
