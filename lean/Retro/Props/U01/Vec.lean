/-
U01 (part 1) — theorems about `Retro.Model.Util`: vectors, points, clamp, projections, distance,
`Sum`, integer `Affine`/`Linear`, `approx_eq`.

Everything is about the definitions the driver runs (`Retro.Drv.U01`), over an arbitrary commutative ring
/ linearly ordered field, over `ℤ` for the integer scalars, and over `XRat` for the NaN / ±∞ behaviour.
-/
import Retro.Model.Util
import Retro.Model.XRat
import Mathlib.Tactic.Ring
import Mathlib.Tactic.Linarith
import Mathlib.Tactic.Positivity
import Mathlib.Tactic.NormNum
import Mathlib.Tactic.FieldSimp
import Mathlib.Algebra.Order.Field.Basic
import Mathlib.Algebra.BigOperators.Group.List.Basic
import Mathlib.Algebra.Order.BigOperators.Group.List

set_option linter.unusedSectionVars false
set_option linter.unusedVariables false

namespace Retro.Props.U01
open Retro Retro.Util

/-! ## Ring-level facts: `dot`, `+`, `-`, scalar multiple, `Sum`, `splat`, `Index`, `==` -/

section Ring
variable {R : Type} [CommRing R]

theorem foldl_add_eq (l : List R) (z : R) : l.foldl (· + ·) z = z + l.sum := by
  induction l generalizing z with
  | nil => simp
  | cons x xs ih => simp [List.foldl_cons, ih, add_assoc]

/-- `dot` (left fold from zero, vec.rs:188) is the sum of the component products. -/
theorem dot_eq_sum (a b : List R) : dot a b = (List.zipWith (· * ·) a b).sum := by
  unfold dot; rw [foldl_add_eq]; simp

theorem dot_nil_left (b : List R) : dot ([] : List R) b = 0 := by simp [dot_eq_sum]
theorem dot_nil_right (a : List R) : dot a ([] : List R) = 0 := by simp [dot_eq_sum]
theorem dot_cons (x y : R) (a b : List R) : dot (x :: a) (y :: b) = x * y + dot a b := by
  simp [dot_eq_sum]

theorem dot_comm (a b : List R) : dot a b = dot b a := by
  induction a generalizing b with
  | nil => simp [dot_nil_left, dot_nil_right]
  | cons x xs ih =>
    cases b with
    | nil => simp [dot_nil_left, dot_nil_right]
    | cons y ys => rw [dot_cons, dot_cons, ih, mul_comm]

/-- `(a * s)·b = (a·b) * s` -/
theorem dot_vmul_left (a b : List R) (s : R) : dot (vmul a s) b = dot a b * s := by
  induction a generalizing b with
  | nil => simp [vmul, dot_nil_left]
  | cons x xs ih =>
    cases b with
    | nil => simp [dot_nil_right]
    | cons y ys =>
      have := ih ys
      simp only [vmul, List.map_cons] at this ⊢
      rw [dot_cons, dot_cons, this]; ring

theorem dot_vmul_right (a b : List R) (s : R) : dot a (vmul b s) = dot a b * s := by
  rw [dot_comm, dot_vmul_left, dot_comm]

/-- `(a − b)·c = a·c − b·c` for vectors of one dimension -/
theorem dot_vsub_left (a b c : List R) (h : a.length = b.length) :
    dot (vsub a b) c = dot a c - dot b c := by
  induction a generalizing b c with
  | nil =>
    cases b with
    | nil => simp [vsub, dot_nil_left]
    | cons _ _ => simp at h
  | cons x xs ih =>
    cases b with
    | nil => simp at h
    | cons y ys =>
      cases c with
      | nil => simp [dot_nil_right]
      | cons z zs =>
        have := ih ys zs (by simpa using h)
        simp only [vsub, List.zipWith_cons_cons] at this ⊢
        rw [dot_cons, dot_cons, dot_cons, this]; ring

theorem dot_vadd_left (a b c : List R) (h : a.length = b.length) :
    dot (vadd a b) c = dot a c + dot b c := by
  induction a generalizing b c with
  | nil =>
    cases b with
    | nil => simp [vadd, dot_nil_left]
    | cons _ _ => simp at h
  | cons x xs ih =>
    cases b with
    | nil => simp at h
    | cons y ys =>
      cases c with
      | nil => simp [dot_nil_right]
      | cons z zs =>
        have := ih ys zs (by simpa using h)
        simp only [vadd, List.zipWith_cons_cons] at this ⊢
        rw [dot_cons, dot_cons, dot_cons, this]; ring

/-- The `-` operator (`add(self, rhs.neg())`, vec.rs:549) and `Affine::sub` (vec.rs:361) agree in a ring.
(They do NOT agree on the overflow-checked integers: `viSubOp_negates_first`.) -/
theorem vsubOp_eq_vsub (a b : List R) : vsubOp a b = vsub a b := by
  induction a generalizing b with
  | nil => simp [vsubOp, vadd, vsub]
  | cons x xs ih =>
    cases b with
    | nil => simp [vsubOp, vadd, vsub, vneg]
    | cons y ys =>
      have := ih ys
      simp only [vsubOp, vadd, vneg, vsub, List.map_cons, List.zipWith_cons_cons] at this ⊢
      rw [this, sub_eq_add_neg]

theorem vadd_comm (a b : List R) : vadd a b = vadd b a := by
  induction a generalizing b with
  | nil => simp [vadd]
  | cons x xs ih =>
    cases b with
    | nil => simp [vadd]
    | cons y ys =>
      have := ih ys
      simp only [vadd, List.zipWith_cons_cons] at this ⊢
      rw [this, add_comm]

theorem vadd_length (a b : List R) : (vadd a b).length = min a.length b.length := by simp [vadd]
theorem vsub_length (a b : List R) : (vsub a b).length = min a.length b.length := by simp [vsub]
theorem vmul_length (a : List R) (s : R) : (vmul a s).length = a.length := by simp [vmul]

theorem vadd_vzero (a : List R) : vadd (vzero a.length) a = a := by
  induction a with
  | nil => simp [vadd, vzero]
  | cons x xs ih =>
    simp only [vadd, vzero, List.length_cons, List.replicate_succ, List.zipWith_cons_cons] at ih ⊢
    rw [ih, zero_add]

/-- `Sum` (vec.rs:496-503) is the left fold of `+` from the zero vector. -/
theorem vsum_nil (n : Nat) : vsum n ([] : List (List R)) = vzero n := rfl
theorem vsum_append_singleton (n : Nat) (vs : List (List R)) (v : List R) :
    vsum n (vs ++ [v]) = vadd (vsum n vs) v := by
  simp [vsum, List.foldl_append]
theorem vsum_singleton (v : List R) : vsum v.length [v] = v := by
  simp [vsum, vadd_vzero]

/-- Component `i` of the sum is the sum of the components `i` (all vectors of dimension `n`). -/
theorem vsum_get (n : Nat) (vs : List (List R)) (hl : ∀ v ∈ vs, v.length = n) (i : Nat) (hi : i < n) :
    (vsum n vs).length = n ∧ (vsum n vs)[i]? = some (vs.map (fun v => v.getD i 0)).sum := by
  induction vs using List.reverseRecOn with
  | nil => simp [vsum_nil, vzero, hi]
  | append_singleton vs v ih =>
    have hv : v.length = n := hl v (by simp)
    obtain ⟨h1, h2⟩ := ih (fun w hw => hl w (by simp [hw]))
    rw [vsum_append_singleton]
    refine ⟨by rw [vadd_length, h1, hv, min_self], ?_⟩
    have hi' : i < v.length := hv ▸ hi
    simp only [vadd, List.getElem?_zipWith, h2, List.map_append, List.map_cons, List.map_nil,
      List.sum_append, List.sum_cons, List.sum_nil, add_zero]
    simp [List.getD_eq_getElem?_getD, List.getElem?_eq_getElem hi']

/-- `splat` (vec.rs:80) puts the scalar in every component. -/
theorem splat_length (n : Nat) (s : R) : (splat n s).length = n := by simp [splat]
theorem splat_get (n : Nat) (s : R) (i : Nat) (h : i < n) : (splat n s)[i]? = some s := by
  simp [splat, h]
/-- `Default` / `Linear::zero` is `splat 0`. -/
theorem vzero_eq_splat (n : Nat) : (vzero n : List R) = splat n 0 := rfl

end Ring

/-- `Index` (vec.rs:473): a value exactly for `i < DIM`, otherwise the panic. -/
theorem index_ok_iff {α : Type} (a : List α) (i : Nat) : (index a i).isOk = true ↔ i < a.length := by
  unfold index
  by_cases h : i < a.length
  · simp [Outcome.isOk, h]
  · simp [Outcome.isOk, h]

theorem index_val {α : Type} (a : List α) (i : Nat) (h : i < a.length) : index a i = .ok a[i] := by
  simp [index, List.getElem?_eq_getElem h]

example : index [10, 20, 30] 1 = .ok 20 := rfl
example : (index [10, 20, 30] 3).isOk = false := rfl

/-- `PartialEq` (vec.rs:430): component-wise equality of the arrays. -/
theorem veq_iff {α : Type} [BEq α] [LawfulBEq α] (a b : List α) : veq a b = true ↔ a = b := by
  simp [veq]

/-! ## Ordered field: projections, clamp, distance -/

section Field
variable {K : Type} [Field K] [LinearOrder K] [IsStrictOrderedRing K]

theorem dot_self_nonneg (a : List K) : 0 ≤ dot a a := by
  induction a with
  | nil => simp [dot_nil_left]
  | cons x xs ih => rw [dot_cons]; nlinarith [mul_self_nonneg x]

/-- `len_sqr = 0` exactly for the zero vector (exact arithmetic). -/
theorem dot_self_eq_zero_iff (a : List K) : dot a a = 0 ↔ ∀ x ∈ a, x = 0 := by
  induction a with
  | nil => simp [dot_nil_left]
  | cons x xs ih =>
    rw [dot_cons]
    have h1 := mul_self_nonneg x
    have h2 := dot_self_nonneg xs
    constructor
    · intro h
      have hx : x * x = 0 := by linarith
      have hs : dot xs xs = 0 := by linarith
      intro y hy
      rcases List.mem_cons.mp hy with rfl | hy
      · exact mul_self_eq_zero.mp hx
      · exact ih.mp hs y hy
    · intro h
      have hx : x = 0 := h x (by simp)
      have hs : dot xs xs = 0 := ih.mpr (fun y hy => h y (by simp [hy]))
      rw [hx, hs]; ring

/-! ### projections (vec.rs:199-224) -/

/-- What the code computes when the divisor is not zero. -/
theorem scalarProject_eq (v u : List K) (h : dot u u ≠ 0) : scalarProject v u = some (dot v u / dot u u) := by
  simp [scalarProject, h]

theorem vectorProject_eq (v u : List K) (h : dot u u ≠ 0) :
    vectorProject v u = some (vmul u (dot v u / dot u u)) := by
  simp [vectorProject, scalarProject, h, vmul]

/-- Projection onto the zero vector: `0.0 / 0.0`, NaN in every component (`none`), never a panic and
never a value. In exact arithmetic the divisor vanishes only for the zero vector. -/
theorem project_zero_divisor (v u : List K) (h : ∀ x ∈ u, x = 0) :
    scalarProject v u = none ∧ vectorProject v u = none := by
  have : dot u u = 0 := (dot_self_eq_zero_iff u).mpr h
  simp [vectorProject, scalarProject, this]

theorem project_isSome_iff (v u : List K) : (vectorProject v u).isSome = true ↔ ∃ x ∈ u, x ≠ 0 := by
  by_cases h : dot u u = 0
  · have hz := (dot_self_eq_zero_iff u).mp h
    simp only [vectorProject, scalarProject, h, if_true, Option.isSome_none, Bool.false_eq_true, false_iff]
    push Not; exact hz
  · rw [vectorProject_eq v u h]
    simp only [Option.isSome_some, true_iff]
    by_contra hc
    push Not at hc
    exact h ((dot_self_eq_zero_iff u).mpr hc)

/-- The projection is a scalar multiple of `u` (parallel to `u`), the scalar being `scalar_project`. -/
theorem project_parallel (v u w : List K) (h : vectorProject v u = some w) :
    ∃ s, scalarProject v u = some s ∧ w = vmul u s := by
  unfold vectorProject at h
  cases hs : scalarProject v u with
  | none => simp [hs] at h
  | some s => simp only [hs, Option.some.injEq] at h; exact ⟨s, rfl, by simp [vmul, h]⟩

/-- The residual `v − vector_project v u` is orthogonal to `u`. -/
theorem project_residual_orthogonal (v u w : List K) (hl : v.length = u.length)
    (h : vectorProject v u = some w) : dot (vsub v w) u = 0 := by
  have hne : dot u u ≠ 0 := by
    intro h0; simp [vectorProject, scalarProject, h0] at h
  rw [vectorProject_eq v u hne] at h
  obtain rfl := Option.some.inj h
  rw [dot_vsub_left _ _ _ (by rw [vmul_length, hl]), dot_vmul_left]
  field_simp
  ring

/-- `w·u = v·u`: the projection has the same scalar projection as the original. -/
theorem project_same_scalar (v u w : List K) (h : vectorProject v u = some w) :
    dot w u = dot v u ∧ scalarProject w u = scalarProject v u := by
  have hne : dot u u ≠ 0 := by
    intro h0; simp [vectorProject, scalarProject, h0] at h
  rw [vectorProject_eq v u hne] at h
  obtain rfl := Option.some.inj h
  have : dot (vmul u (dot v u / dot u u)) u = dot v u := by
    rw [dot_vmul_left]; field_simp
  exact ⟨this, by rw [scalarProject_eq _ _ hne, scalarProject_eq _ _ hne, this]⟩

/-- Projecting twice changes nothing. -/
theorem project_idempotent (v u w : List K) (h : vectorProject v u = some w) :
    vectorProject w u = some w := by
  have hne : dot u u ≠ 0 := by
    intro h0; simp [vectorProject, scalarProject, h0] at h
  have hs := (project_same_scalar v u w h).1
  rw [vectorProject_eq v u hne] at h
  rw [vectorProject_eq w u hne, hs, h]

/-- A multiple of `u` is its own projection. -/
theorem project_of_parallel (u : List K) (s : K) (h : dot u u ≠ 0) :
    vectorProject (vmul u s) u = some (vmul u s) := by
  rw [vectorProject_eq _ _ h, dot_vmul_left]
  congr 2
  field_simp

/-- A vector orthogonal to `u` projects to the zero vector. -/
theorem project_of_orthogonal (v u : List K) (h : dot u u ≠ 0) (ho : dot v u = 0) :
    vectorProject v u = some (vzero u.length) := by
  rw [vectorProject_eq _ _ h, ho, zero_div]
  simp [vmul, vzero]

example : vectorProject ([3, 4] : List ℚ) [2, 0] = some [3, 0] := by
  simp [vectorProject, scalarProject, dot]; norm_num
example : vectorProject ([3, 4] : List ℚ) [0, 0] = none := by
  simp [vectorProject, scalarProject, dot]

/-! ### clamp (vec.rs:167, point.rs:109; core `f32::clamp`) -/

/-- The value `f32::clamp` returns when its assertion holds. -/
def clampVal (x lo hi : K) : K := if x < lo then lo else if hi < x then hi else x

theorem clamp1_ok (x lo hi : K) (h : lo ≤ hi) : clamp1 x lo hi = .ok (clampVal x lo hi) := by
  simp [clamp1, clampVal, h]

/-- `min > max` is the std assertion's panic. -/
theorem clamp1_panics (x lo hi : K) (h : hi < lo) : ∃ s, clamp1 x lo hi = .panic s := by
  simp [clamp1, not_le.mpr h]

theorem clamp1_isOk_iff (x lo hi : K) : (clamp1 x lo hi).isOk = true ↔ lo ≤ hi := by
  by_cases h : lo ≤ hi <;> simp [clamp1, h, Outcome.isOk]

theorem clampVal_range (x lo hi : K) (h : lo ≤ hi) : lo ≤ clampVal x lo hi ∧ clampVal x lo hi ≤ hi := by
  unfold clampVal
  split_ifs with h1 h2
  · exact ⟨le_refl _, h⟩
  · exact ⟨h, le_refl _⟩
  · exact ⟨not_lt.mp h1, not_lt.mp h2⟩

theorem clampVal_id (x lo hi : K) (h1 : lo ≤ x) (h2 : x ≤ hi) : clampVal x lo hi = x := by
  simp [clampVal, not_lt.mpr h1, not_lt.mpr h2]

theorem clampVal_idem (x lo hi : K) (h : lo ≤ hi) : clampVal (clampVal x lo hi) lo hi = clampVal x lo hi :=
  clampVal_id _ _ _ (clampVal_range x lo hi h).1 (clampVal_range x lo hi h).2

/-- Component-wise clamp: for `min ≤ max` in every component the call returns, every component of the
result lies in `[min, max]`, and the dimension is kept. -/
theorem vclamp_range (x lo hi : List K) (hb : List.Forall₂ (· ≤ ·) lo hi) (hx : x.length = lo.length) :
    ∃ r, vclamp x lo hi = .ok r ∧ r.length = x.length ∧
      List.Forall₂ (· ≤ ·) lo r ∧ List.Forall₂ (· ≤ ·) r hi := by
  induction hb generalizing x with
  | nil =>
    cases x with
    | nil => exact ⟨[], by simp [vclamp], rfl, .nil, .nil⟩
    | cons _ _ => simp at hx
  | @cons l h ls hs hlh _ ih =>
    cases x with
    | nil => simp at hx
    | cons a as =>
      obtain ⟨r, hr, hlen, h1, h2⟩ := ih as (by simpa using hx)
      refine ⟨clampVal a l h :: r, ?_, by simp [hlen], ?_, ?_⟩
      · simp [vclamp, clamp1_ok a l h hlh, hr]
      · exact .cons (clampVal_range a l h hlh).1 h1
      · exact .cons (clampVal_range a l h hlh).2 h2

/-- A vector inside the box is returned unchanged. -/
theorem vclamp_id (x lo hi : List K) (h1 : List.Forall₂ (· ≤ ·) lo x) (h2 : List.Forall₂ (· ≤ ·) x hi) :
    vclamp x lo hi = .ok x := by
  induction h1 generalizing hi with
  | nil => cases h2; simp [vclamp]
  | @cons l a ls as hla _ ih =>
    cases h2 with
    | @cons _ h _ hs hah h2' =>
      simp [vclamp, clamp1_ok a l h (le_trans hla hah), clampVal_id a l h hla hah, ih hs h2']

/-- Clamping twice is clamping once. -/
theorem vclamp_idem (x lo hi r : List K) (hb : List.Forall₂ (· ≤ ·) lo hi) (hx : x.length = lo.length)
    (h : vclamp x lo hi = .ok r) : vclamp r lo hi = .ok r := by
  obtain ⟨r', hr', -, h1, h2⟩ := vclamp_range x lo hi hb hx
  rw [h] at hr'
  obtain rfl := Outcome.ok.inj hr'
  exact vclamp_id r lo hi h1 h2

/-- The call returns iff `min ≤ max` in every component (vectors of one dimension): otherwise the first
offending component's assertion panics. -/
theorem vclamp_isOk_iff (x lo hi : List K) (hx : x.length = lo.length) (hh : lo.length = hi.length) :
    (vclamp x lo hi).isOk = true ↔ List.Forall₂ (· ≤ ·) lo hi := by
  constructor
  · intro h
    induction x generalizing lo hi with
    | nil =>
      cases lo with
      | nil => cases hi with
        | nil => exact .nil
        | cons _ _ => simp at hh
      | cons _ _ => simp at hx
    | cons a as ih =>
      cases lo with
      | nil => simp at hx
      | cons l ls =>
        cases hi with
        | nil => simp at hh
        | cons h' hs =>
          by_cases hle : l ≤ h'
          · refine .cons hle (ih ls hs (by simpa using hx) (by simpa using hh) ?_)
            simp only [vclamp, clamp1_ok a l h' hle] at h
            cases hr : vclamp as ls hs with
            | ok r => rfl
            | panic s => simp [hr, Outcome.isOk] at h
          · simp [vclamp, clamp1, hle, Outcome.isOk] at h
  · intro hb
    obtain ⟨r, hr, -⟩ := vclamp_range x lo hi hb hx
    simp [hr, Outcome.isOk]

example : vclamp ([1/2, 3/2, -2] : List ℚ) [-1, -1, -1] [1, 1, 1] = .ok [1/2, 1, -1] := by
  simp [vclamp, clamp1]; norm_num
example : (vclamp ([0, 0] : List ℚ) [0, 2] [1, 1]).isOk = false := by
  simp [vclamp, clamp1, Outcome.isOk]

/-! ### distance (point.rs:74-93) -/

/-- `distance_sqr` is `len_sqr` of the difference (point.rs:91, by definition). -/
theorem distanceSqr_eq (p q : List K) : distanceSqr p q = lenSqr (vsub p q) := rfl

theorem distanceSqr_comm (p q : List K) : distanceSqr p q = distanceSqr q p := by
  unfold distanceSqr lenSqr
  induction p generalizing q with
  | nil => simp [vsub, dot_nil_left]
  | cons x xs ih =>
    cases q with
    | nil => simp [vsub, dot_nil_left]
    | cons y ys =>
      have := ih ys
      simp only [vsub, List.zipWith_cons_cons] at this ⊢
      rw [dot_cons, dot_cons, this]; ring

theorem distanceSqr_nonneg (p q : List K) : 0 ≤ distanceSqr p q := dot_self_nonneg _

/-- zero iff equal (points of one dimension, exact arithmetic) -/
theorem distanceSqr_eq_zero_iff (p q : List K) (h : p.length = q.length) : distanceSqr p q = 0 ↔ p = q := by
  unfold distanceSqr lenSqr
  induction p generalizing q with
  | nil =>
    cases q with
    | nil => simp [vsub, dot_nil_left]
    | cons _ _ => simp at h
  | cons x xs ih =>
    cases q with
    | nil => simp at h
    | cons y ys =>
      have ih' := ih ys (by simpa using h)
      simp only [vsub, List.zipWith_cons_cons] at ih' ⊢
      rw [dot_cons]
      have h1 := mul_self_nonneg (x - y)
      have h2 := dot_self_nonneg (List.zipWith (· - ·) xs ys)
      constructor
      · intro h0
        have hx : (x - y) * (x - y) = 0 := by linarith
        have hs : dot (List.zipWith (· - ·) xs ys) (List.zipWith (· - ·) xs ys) = 0 := by linarith
        rw [sub_eq_zero.mp (mul_self_eq_zero.mp hx), ih'.mp hs]
      · intro he
        obtain ⟨rfl, rfl⟩ := List.cons.inj he
        rw [ih'.mpr rfl]; ring

/-- The contract the square root has to satisfy (as `Model/Angle.lean`): the non-negative root. -/
def SqrtSpec (sqrt : K → K) : Prop := ∀ x, 0 ≤ x → 0 ≤ sqrt x ∧ sqrt x * sqrt x = x

theorem distance_comm (sqrt : K → K) (p q : List K) : distance sqrt p q = distance sqrt q p := by
  unfold distance; rw [distanceSqr_comm]

theorem distance_nonneg (sqrt : K → K) (hs : SqrtSpec sqrt) (p q : List K) : 0 ≤ distance sqrt p q :=
  (hs _ (distanceSqr_nonneg p q)).1

theorem distance_sq (sqrt : K → K) (hs : SqrtSpec sqrt) (p q : List K) :
    distance sqrt p q * distance sqrt p q = distanceSqr p q :=
  (hs _ (distanceSqr_nonneg p q)).2

theorem distance_eq_zero_iff (sqrt : K → K) (hs : SqrtSpec sqrt) (p q : List K) (h : p.length = q.length) :
    distance sqrt p q = 0 ↔ p = q := by
  rw [← distanceSqr_eq_zero_iff p q h, ← distance_sq sqrt hs p q]
  exact ⟨fun h0 => by rw [h0]; ring, fun h0 => mul_self_eq_zero.mp h0⟩

/-- Cauchy–Schwarz for `dot`, by induction on the dimension. -/
theorem dot_sq_le (a b : List K) : dot a b * dot a b ≤ dot a a * dot b b := by
  induction a generalizing b with
  | nil => simp [dot_nil_left]
  | cons x xs ih =>
    cases b with
    | nil => simp [dot_nil_right]
    | cons y ys =>
      rw [dot_cons, dot_cons, dot_cons]
      have h := ih ys
      have hA := dot_self_nonneg xs
      have hB := dot_self_nonneg ys
      set s := dot xs ys
      set A := dot xs xs
      set B := dot ys ys
      -- 2·s·x·y ≤ A·y² + B·x²
      have key : 2 * s * (x * y) ≤ A * (y * y) + B * (x * x) := by
        by_contra hc
        push Not at hc
        have hpos : 0 ≤ A * (y * y) + B * (x * x) :=
          add_nonneg (mul_nonneg hA (mul_self_nonneg y)) (mul_nonneg hB (mul_self_nonneg x))
        have hsq : (A * (y * y) + B * (x * x)) * (A * (y * y) + B * (x * x)) <
            (2 * s * (x * y)) * (2 * s * (x * y)) := by nlinarith
        have h4 : (2 * s * (x * y)) * (2 * s * (x * y)) ≤ 4 * (A * B) * ((x * y) * (x * y)) := by
          have : 0 ≤ (x * y) * (x * y) := mul_self_nonneg _
          nlinarith
        nlinarith [mul_self_nonneg (A * (y * y) - B * (x * x))]
      nlinarith

/-- The triangle inequality for `distance` (points of one dimension; the square root satisfies its
contract). -/
theorem distance_triangle (sqrt : K → K) (hs : SqrtSpec sqrt) (p q r : List K)
    (h1 : p.length = q.length) (h2 : q.length = r.length) :
    distance sqrt p r ≤ distance sqrt p q + distance sqrt q r := by
  have hd : ∀ a b : List K, 0 ≤ distance sqrt a b ∧ distance sqrt a b * distance sqrt a b = lenSqr (vsub a b) :=
    fun a b => ⟨distance_nonneg sqrt hs a b, distance_sq sqrt hs a b⟩
  obtain ⟨n1, e1⟩ := hd p r
  obtain ⟨n2, e2⟩ := hd p q
  obtain ⟨n3, e3⟩ := hd q r
  -- p − r = (p − q) + (q − r)
  have hsplit : vsub p r = vadd (vsub p q) (vsub q r) := by
    clear e1 e2 e3 n1 n2 n3 hd
    induction p generalizing q r with
    | nil => simp [vsub, vadd]
    | cons x xs ih =>
      cases q with
      | nil => simp at h1
      | cons y ys =>
        cases r with
        | nil => simp at h2
        | cons z zs =>
          have := ih ys zs (by simpa using h1) (by simpa using h2)
          simp only [vsub, vadd, List.zipWith_cons_cons] at this ⊢
          rw [this]; congr 1; ring
  set a := vsub p q
  set b := vsub q r
  have hab : a.length = b.length := by simp [a, b, vsub_length, h1, h2]
  have e1' : distance sqrt p r * distance sqrt p r = lenSqr a + 2 * dot a b + lenSqr b := by
    rw [e1, hsplit]
    unfold lenSqr
    rw [dot_vadd_left _ _ _ hab, dot_comm a (vadd a b), dot_comm b (vadd a b),
      dot_vadd_left _ _ _ hab, dot_vadd_left _ _ _ hab, dot_comm b a]
    ring
  have cs := dot_sq_le a b
  unfold lenSqr at e2 e3 e1'
  -- a·b ≤ |a||b|
  have hab2 : dot a b ≤ distance sqrt p q * distance sqrt q r := by
    by_contra hc
    push Not at hc
    have hpos : 0 ≤ distance sqrt p q * distance sqrt q r := mul_nonneg n2 n3
    have : (distance sqrt p q * distance sqrt q r) * (distance sqrt p q * distance sqrt q r) < dot a b * dot a b := by
      nlinarith
    have e : (distance sqrt p q * distance sqrt q r) * (distance sqrt p q * distance sqrt q r) = dot a a * dot b b := by
      rw [← e2, ← e3]; ring
    linarith
  by_contra hc
  push Not at hc
  have hsum : 0 ≤ distance sqrt p q + distance sqrt q r := add_nonneg n2 n3
  nlinarith

end Field

/-! ### clamp with NaN / ∞ (the std `f32::clamp` contract, at the extended rationals) -/

/-- A NaN bound fails `assert!(min <= max)`: panic, whatever the value. -/
theorem clamp1_nan_bound (x b : XRat) :
    (clamp1 x XRat.nan b).isOk = false ∧ (clamp1 x b XRat.nan).isOk = false := by
  constructor
  · cases b <;> rfl
  · cases b <;> rfl

/-- A NaN value passes through a valid range unchanged. -/
theorem clamp1_nan_self (lo hi : XRat) (h : lo ≤ hi) : clamp1 XRat.nan lo hi = .ok XRat.nan := by
  have h' : XRat.le lo hi = true := h
  have l1 : ¬ (XRat.nan < lo) := by
    show ¬ (XRat.lt XRat.nan lo = true); simp [XRat.lt]
  have l2 : ¬ (hi < XRat.nan) := by
    show ¬ (XRat.lt hi XRat.nan = true); cases hi <;> simp [XRat.lt]
  simp only [clamp1, h, if_true, l1, l2, if_false]

example : clamp1 (XRat.fin 5) XRat.ninf XRat.pinf = .ok (XRat.fin 5) := by decide
example : (clamp1 (XRat.fin 5) (XRat.fin 2) (XRat.fin 1)).isOk = false := by decide

/-! ## approx.rs -/

section Approx
variable {K : Type} [Field K] [LinearOrder K] [IsStrictOrderedRing K]

theorem absS_eq_abs (x : K) : absS x = |x| := by
  unfold absS
  split_ifs with h
  · rw [abs_of_neg h]
  · rw [abs_of_nonneg (not_lt.mp h)]

theorem fmax_eq_max (a b : K) : fmax a b = max a b := by
  unfold fmax
  split_ifs with h1 h2
  · exact (max_eq_right (le_of_lt h1)).symm
  · exact (max_eq_left h2).symm
  · exact absurd (not_lt.mp h1) h2

/-- The exact semantics of `approx_eq_eps` (approx.rs:38-42): `|a − b| ≤ eps · max(|a|, 1)` — relative to
the magnitude of the LEFT operand only. -/
theorem approxEqEps_iff (a b eps : K) : approxEqEps a b eps = true ↔ |a - b| ≤ eps * max |a| 1 := by
  simp [approxEqEps, absS_eq_abs, fmax_eq_max]

/-- reflexive for every finite value and `eps ≥ 0` -/
theorem approx_refl (a eps : K) (h : 0 ≤ eps) : approxEqEps a a eps = true := by
  rw [approxEqEps_iff, sub_self, abs_zero]
  exact mul_nonneg h (le_trans zero_le_one (le_max_right _ _))

/-- not reflexive for a negative epsilon -/
theorem approx_irrefl_neg_eps (a eps : K) (h : eps < 0) : approxEqEps a a eps = false := by
  rw [← Bool.not_eq_true, approxEqEps_iff, sub_self, abs_zero, not_le]
  exact mul_neg_of_neg_of_pos h (lt_of_lt_of_le zero_lt_one (le_max_right _ _))

/-- monotone in eps -/
theorem approx_mono (a b e1 e2 : K) (h : e1 ≤ e2) (h1 : approxEqEps a b e1 = true) :
    approxEqEps a b e2 = true := by
  rw [approxEqEps_iff] at h1 ⊢
  exact le_trans h1 (mul_le_mul_of_nonneg_right h (le_trans zero_le_one (le_max_right _ _)))

/-- symmetric when both magnitudes are at most 1 (the tolerance is then absolute) … -/
theorem approx_symm_small (a b eps : K) (ha : |a| ≤ 1) (hb : |b| ≤ 1) :
    approxEqEps a b eps = approxEqEps b a eps := by
  rw [Bool.eq_iff_iff, approxEqEps_iff, approxEqEps_iff, max_eq_right ha, max_eq_right hb, abs_sub_comm]

/-- … and whenever the magnitudes are equal -/
theorem approx_symm_same_abs (a b eps : K) (h : |a| = |b|) :
    approxEqEps a b eps = approxEqEps b a eps := by
  rw [Bool.eq_iff_iff, approxEqEps_iff, approxEqEps_iff, h, abs_sub_comm]

end Approx

/-- NOT symmetric in general: 101.005 ≈ 100 but not 100 ≈ 101.005 at eps = 0.01. -/
theorem approx_not_symm :
    ∃ a b eps : ℚ, approxEqEps a b eps = false ∧ approxEqEps b a eps = true :=
  ⟨100, 101005 / 1000, 1 / 100, by decide +kernel, by decide +kernel⟩

/-- NOT transitive: 0 ≈ 1 ≈ 2 at eps = 1, but not 0 ≈ 2. -/
theorem approx_not_trans :
    ∃ a b c eps : ℚ, approxEqEps a b eps = true ∧ approxEqEps b c eps = true ∧ approxEqEps a c eps = false :=
  ⟨0, 1, 2, 1, by decide +kernel, by decide +kernel, by decide +kernel⟩

/-- A NaN is approximately equal to nothing (pinned by the repo test `nan_not_approx_eq_to_nan`). -/
theorem approx_nan (b eps : XRat) :
    approxEqEps XRat.nan b eps = false ∧ approxEqEps b XRat.nan eps = false := by
  constructor
  · cases b <;> cases eps <;> rfl
  · cases b <;> cases eps <;> simp [approxEqEps, absS, fmax] <;> rfl

/-- `∞` is not approximately equal to `∞` (repo test `inf_not_approx_eq_to_inf`: `∞ − ∞ = NaN`) … -/
theorem approx_inf_inf (eps : XRat) : approxEqEps XRat.pinf XRat.pinf eps = false := by
  cases eps <;> rfl

/-- … but `∞` on the LEFT is approximately equal to every finite number for every positive eps
(`∞ ≤ eps · ∞`), while a finite number on the left is never approximately equal to `∞`. -/
theorem approx_inf_finite (q e : ℚ) (he : 0 < e) :
    approxEqEps XRat.pinf (XRat.fin q) (XRat.fin e) = true := by
  have e1 : (XRat.pinf - XRat.fin q) = XRat.pinf := rfl
  have e2 : ¬ (XRat.pinf < (0 : XRat)) := by decide
  have e3 : ¬ (XRat.pinf < (1 : XRat)) := by decide
  have e4 : (1 : XRat) ≤ XRat.pinf := by decide
  have e5 : XRat.fin e * XRat.pinf = XRat.pinf := by
    show XRat.mul (XRat.fin e) XRat.pinf = XRat.pinf
    simp [XRat.mul, XRat.sgn, not_lt.mpr he.le, ne_of_gt he]
  unfold approxEqEps absS fmax
  rw [e1]
  simp only [e2, e3, e4, if_false, if_true, e5]
  decide

example : approxEqEps (XRat.fin 1) XRat.pinf (XRat.fin (1/1000000)) = false := by decide +kernel

/-! ### lifts (approx.rs:53-86) -/

/-- slices of different lengths are never approximately equal -/
theorem approxEqList_length_ne {α : Type} [Sub α] [Mul α] [Neg α] [OfNat α 0] [OfNat α 1]
    [LT α] [DecidableLT α] [LE α] [DecidableLE α] (a b : List α) (eps : α) (h : a.length ≠ b.length) :
    approxEqList a b eps = false := by
  simp [approxEqList, h]

/-- equal lengths: component-wise -/
theorem approxEqList_cons {α : Type} [Sub α] [Mul α] [Neg α] [OfNat α 0] [OfNat α 1]
    [LT α] [DecidableLT α] [LE α] [DecidableLE α] (x y : α) (a b : List α) (eps : α) :
    approxEqList (x :: a) (y :: b) eps = (approxEqEps x y eps && approxEqList a b eps) := by
  simp only [approxEqList, List.length_cons, List.zip_cons_cons, List.all_cons]
  by_cases h : a.length = b.length <;> simp [h, Bool.and_left_comm]

theorem approxEqList_nil {α : Type} [Sub α] [Mul α] [Neg α] [OfNat α 0] [OfNat α 1]
    [LT α] [DecidableLT α] [LE α] [DecidableLE α] (eps : α) : approxEqList ([] : List α) [] eps = true := rfl

/-- `Option`: `None ≈ None`, `Some ≉ None`, `Some a ≈ Some b` iff `a ≈ b`. -/
theorem approxEqOpt_cases {α : Type} [Sub α] [Mul α] [Neg α] [OfNat α 0] [OfNat α 1]
    [LT α] [DecidableLT α] [LE α] [DecidableLE α] (a b : α) (eps : α) :
    approxEqOpt (none : Option α) none eps = true ∧ approxEqOpt (some a) none eps = false ∧
    approxEqOpt none (some b) eps = false ∧ approxEqOpt (some a) (some b) eps = approxEqEps a b eps :=
  ⟨rfl, rfl, rfl, rfl⟩

/-! ## space.rs: integer `Affine` / `Linear` (overflow-checks profile) -/

theorem inI32_iff (x : Int) : inI32 x = true ↔ i32Min ≤ x ∧ x ≤ i32Max := by simp [inI32]
theorem inU32_iff (x : Int) : inU32 x = true ↔ 0 ≤ x ∧ x ≤ u32Max := by simp [inU32]

theorem chkI32_ok_iff (s : String) (x r : Int) : chkI32 s x = .ok r ↔ r = x ∧ inI32 x = true := by
  unfold chkI32; by_cases h : inI32 x = true <;> simp [h, eq_comm]
theorem chkI32_panic_iff (s : String) (x : Int) : (∃ m, chkI32 s x = .panic m) ↔ inI32 x = false := by
  unfold chkI32; by_cases h : inI32 x = true <;> simp [h]
theorem chkU32_ok_iff (s : String) (x r : Int) : chkU32 s x = .ok r ↔ r = x ∧ inU32 x = true := by
  unfold chkU32; by_cases h : inU32 x = true <;> simp [h, eq_comm]
theorem chkU32_panic_iff (s : String) (x : Int) : (∃ m, chkU32 s x = .panic m) ↔ inU32 x = false := by
  unfold chkU32; by_cases h : inU32 x = true <;> simp [h]

/-- `i32` scalars: the result is the ℤ result whenever the call returns, and it returns exactly when the ℤ
result is representable (space.rs:114-133). -/
theorem i32Add_ok_iff (a b r : Int) : i32Add a b = .ok r ↔ r = a + b ∧ inI32 (a + b) = true := chkI32_ok_iff _ _ _
theorem i32Sub_ok_iff (a b r : Int) : i32Sub a b = .ok r ↔ r = a - b ∧ inI32 (a - b) = true := chkI32_ok_iff _ _ _
theorem i32Neg_ok_iff (a r : Int) : i32Neg a = .ok r ↔ r = -a ∧ inI32 (-a) = true := chkI32_ok_iff _ _ _
theorem i32Mul_ok_iff (a b r : Int) : i32Mul a b = .ok r ↔ r = a * b ∧ inI32 (a * b) = true := chkI32_ok_iff _ _ _
theorem i32Add_panic_iff (a b : Int) : (∃ m, i32Add a b = .panic m) ↔ inI32 (a + b) = false := chkI32_panic_iff _ _
theorem i32Sub_panic_iff (a b : Int) : (∃ m, i32Sub a b = .panic m) ↔ inI32 (a - b) = false := chkI32_panic_iff _ _
theorem i32Mul_panic_iff (a b : Int) : (∃ m, i32Mul a b = .panic m) ↔ inI32 (a * b) = false := chkI32_panic_iff _ _
/-- negation panics exactly for `i32::MIN` -/
theorem i32Neg_panic_iff (a : Int) (h : inI32 a = true) : (∃ m, i32Neg a = .panic m) ↔ a = i32Min := by
  rw [i32Neg, chkI32_panic_iff, ← Bool.not_eq_true, inI32_iff]
  rw [inI32_iff] at h
  simp only [i32Min, i32Max] at h ⊢
  omega

/-- `u32 + i32` and `u32 − u32 → i32` (space.rs:141-154; repo tests `affine_add_overflow_should_panic` …) -/
theorem u32AddSigned_ok_iff (a d r : Int) : u32AddSigned a d = .ok r ↔ r = a + d ∧ inU32 (a + d) = true := chkU32_ok_iff _ _ _
theorem u32AddSigned_panic_iff (a d : Int) : (∃ m, u32AddSigned a d = .panic m) ↔ inU32 (a + d) = false := chkU32_panic_iff _ _
theorem u32Sub_ok_iff (a b r : Int) : u32Sub a b = .ok r ↔ r = a - b ∧ inI32 (a - b) = true := chkI32_ok_iff _ _ _
theorem u32Sub_panic_iff (a b : Int) : (∃ m, u32Sub a b = .panic m) ↔ inI32 (a - b) = false := chkI32_panic_iff _ _

/-- the four boundary cases the repo's own tests pin -/
example : (u32AddSigned 3 (-4)).isOk = false := by decide
example : (u32AddSigned (u32Max / 2 + 2) i32Max).isOk = false := by decide
example : (u32Sub 3 u32Max).isOk = false := by decide
example : (u32Sub u32Max 1).isOk = false := by decide
example : u32AddSigned 3 (-2) = .ok 1 := by decide
example : u32Sub 3 4 = .ok (-1) := by decide

/-- truncating division: exact ℤ quotient, panics for a zero divisor and for `MIN / −1` -/
theorem i32Div_ok_iff (a b r : Int) : i32Div a b = .ok r ↔ b ≠ 0 ∧ r = Int.tdiv a b ∧ inI32 (Int.tdiv a b) = true := by
  unfold i32Div
  by_cases h : b = 0
  · simp [h]
  · simp [h, chkI32_ok_iff]
example : (i32Div i32Min (-1)).isOk = false := by decide
example : (i32Div 7 0).isOk = false := by decide
example : i32Div (-7) 2 = .ok (-3) := by decide

/-! ### component-wise lifts -/

/-- A checked binary operation `f a b = chk (g a b)` lifted to vectors: if the call returns, the result is
`g` component-wise and every component passed the check. -/
theorem zipO_ok {f : Int → Int → Outcome Int} {g : Int → Int → Int} {p : Int → Bool}
    (hf : ∀ a b r, f a b = .ok r ↔ r = g a b ∧ p (g a b) = true)
    (a b r : List Int) (h : zipO f a b = .ok r) :
    r = List.zipWith g a b ∧ ∀ x ∈ List.zipWith g a b, p x = true := by
  induction a generalizing b r with
  | nil => simp [zipO] at h; simp [h]
  | cons x xs ih =>
    cases b with
    | nil => simp [zipO] at h; simp [h]
    | cons y ys =>
      simp only [zipO] at h
      cases hxy : f x y with
      | panic s => simp [hxy] at h
      | ok c =>
        simp only [hxy] at h
        cases hr : zipO f xs ys with
        | panic s => simp [hr] at h
        | ok cs =>
          simp only [hr, Outcome.ok.injEq] at h
          obtain ⟨h1, h2⟩ := ih ys cs hr
          obtain ⟨hc, hp⟩ := (hf x y c).mp hxy
          subst h
          refine ⟨by simp [hc, h1], ?_⟩
          intro z hz
          simp only [List.zipWith_cons_cons, List.mem_cons] at hz
          rcases hz with rfl | hz
          · exact hp
          · exact h2 z hz

/-- … and it returns whenever every component passes the check. -/
theorem zipO_of_all {f : Int → Int → Outcome Int} {g : Int → Int → Int} {p : Int → Bool}
    (hf : ∀ a b r, f a b = .ok r ↔ r = g a b ∧ p (g a b) = true)
    (a b : List Int) (h : ∀ x ∈ List.zipWith g a b, p x = true) :
    zipO f a b = .ok (List.zipWith g a b) := by
  induction a generalizing b with
  | nil => simp [zipO]
  | cons x xs ih =>
    cases b with
    | nil => simp [zipO]
    | cons y ys =>
      have hx : f x y = .ok (g x y) := (hf x y _).mpr ⟨rfl, h _ (by simp)⟩
      have hs := ih ys (fun z hz => h z (by simp [hz]))
      simp [zipO, hx, hs]

/-- Integer vector addition: the ℤ sum exactly when it returns; it returns iff every component of the
ℤ sum is representable, and panics otherwise. -/
theorem viAdd_ok_iff (a b r : List Int) :
    viAdd a b = .ok r ↔ r = List.zipWith (· + ·) a b ∧ ∀ x ∈ List.zipWith (· + ·) a b, inI32 x = true := by
  constructor
  · exact zipO_ok (g := (· + ·)) (p := inI32) i32Add_ok_iff a b r
  · rintro ⟨rfl, h⟩; exact zipO_of_all (g := (· + ·)) (p := inI32) i32Add_ok_iff a b h

theorem viSub_ok_iff (a b r : List Int) :
    viSub a b = .ok r ↔ r = List.zipWith (· - ·) a b ∧ ∀ x ∈ List.zipWith (· - ·) a b, inI32 x = true := by
  constructor
  · exact zipO_ok (g := (· - ·)) (p := inI32) i32Sub_ok_iff a b r
  · rintro ⟨rfl, h⟩; exact zipO_of_all (g := (· - ·)) (p := inI32) i32Sub_ok_iff a b h

theorem vuAdd_ok_iff (a d r : List Int) :
    vuAdd a d = .ok r ↔ r = List.zipWith (· + ·) a d ∧ ∀ x ∈ List.zipWith (· + ·) a d, inU32 x = true := by
  constructor
  · exact zipO_ok (g := (· + ·)) (p := inU32) u32AddSigned_ok_iff a d r
  · rintro ⟨rfl, h⟩; exact zipO_of_all (g := (· + ·)) (p := inU32) u32AddSigned_ok_iff a d h

theorem vuSub_ok_iff (a b r : List Int) :
    vuSub a b = .ok r ↔ r = List.zipWith (· - ·) a b ∧ ∀ x ∈ List.zipWith (· - ·) a b, inI32 x = true := by
  constructor
  · exact zipO_ok (g := (· - ·)) (p := inI32) u32Sub_ok_iff a b r
  · rintro ⟨rfl, h⟩; exact zipO_of_all (g := (· - ·)) (p := inI32) u32Sub_ok_iff a b h

/-- An `Outcome` is a value or a panic: "does not return" is "panics". -/
theorem outcome_panic_iff_not_ok {α : Type} (o : Outcome α) : (∃ m, o = .panic m) ↔ ∀ r, o ≠ .ok r := by
  cases o <;> simp

/-- `viAdd` panics exactly on overflow of some component. -/
theorem viAdd_panic_iff (a b : List Int) :
    (∃ m, viAdd a b = .panic m) ↔ ∃ x ∈ List.zipWith (· + ·) a b, inI32 x = false := by
  rw [outcome_panic_iff_not_ok]
  constructor
  · intro h
    by_contra hc
    push Not at hc
    exact h _ ((viAdd_ok_iff a b _).mpr ⟨rfl, fun x hx => by simpa using hc x hx⟩)
  · rintro ⟨x, hx, hf⟩ r hr
    have := ((viAdd_ok_iff a b r).mp hr).2 x hx
    simp [hf] at this

theorem mapO_ok {f : Int → Outcome Int} {g : Int → Int} {p : Int → Bool}
    (hf : ∀ a r, f a = .ok r ↔ r = g a ∧ p (g a) = true) (a r : List Int) :
    mapO f a = .ok r ↔ r = a.map g ∧ ∀ x ∈ a.map g, p x = true := by
  induction a generalizing r with
  | nil => simp only [mapO, Outcome.ok.injEq, List.map_nil, List.not_mem_nil, false_imp_iff, implies_true, and_true]; exact eq_comm
  | cons x xs ih =>
    simp only [mapO]
    cases hx : f x with
    | panic s =>
      have : ¬ (p (g x) = true) := fun hp => by
        have := (hf x (g x)).mpr ⟨rfl, hp⟩; rw [hx] at this; cases this
      simp [this]
    | ok c =>
      obtain ⟨hc, hp⟩ := (hf x c).mp hx
      cases hr : mapO f xs with
      | panic s =>
        have hn : ¬ ∀ z ∈ xs.map g, p z = true := fun hall => by
          have := (ih (xs.map g)).mpr ⟨rfl, hall⟩; rw [hr] at this; cases this
        simp only [List.map_cons, List.mem_cons, forall_eq_or_imp, false_iff, not_and, reduceCtorEq]
        intro _ _; exact hn
      | ok cs =>
        obtain ⟨h1, h2⟩ := (ih cs).mp hr
        simp only [Outcome.ok.injEq, List.map_cons, List.mem_cons, forall_eq_or_imp]
        constructor
        · rintro rfl; exact ⟨by rw [hc, h1], hp, h2⟩
        · rintro ⟨rfl, -, -⟩; rw [hc, h1]

theorem viNeg_ok_iff (a r : List Int) :
    viNeg a = .ok r ↔ r = a.map (- ·) ∧ ∀ x ∈ a.map (- ·), inI32 x = true :=
  mapO_ok (g := (- ·)) (p := inI32) i32Neg_ok_iff a r

theorem viMul_ok_iff (a r : List Int) (s : Int) :
    viMul a s = .ok r ↔ r = a.map (· * s) ∧ ∀ x ∈ a.map (· * s), inI32 x = true :=
  mapO_ok (g := (· * s)) (p := inI32) (fun a r => i32Mul_ok_iff a s r) a r

/-- The `-` operator on integer vectors: when it returns, the result is the ℤ difference … -/
theorem viSubOp_ok (a b r : List Int) (h : viSubOp a b = .ok r) : r = List.zipWith (· - ·) a b := by
  unfold viSubOp at h
  cases hn : viNeg b with
  | panic s => simp [hn] at h
  | ok nb =>
    simp only [hn] at h
    obtain ⟨rfl, -⟩ := (viNeg_ok_iff b nb).mp hn
    obtain ⟨rfl, -⟩ := (viAdd_ok_iff a _ r).mp h
    clear h hn
    induction a generalizing b with
    | nil => simp
    | cons x xs ih =>
      cases b with
      | nil => simp
      | cons y ys => simp [ih ys, Int.sub_eq_add_neg]

/-- … but it negates first (vec.rs:549): it panics for a right-hand component `i32::MIN` even when the
difference is representable, whereas `Affine::sub` returns it. -/
theorem viSubOp_negates_first :
    (viSubOp [-1, 0] [i32Min, 0]).isOk = false ∧ viSub [-1, 0] [i32Min, 0] = .ok [i32Max, 0] := by
  constructor <;> decide

/-- Integer dot product (vec.rs:188 at `Sc = i32`): when it returns, it is the ℤ dot product. -/
theorem viDotFrom_ok (acc : Int) (a b : List Int) (r : Int) (h : viDotFrom acc a b = .ok r) :
    r = acc + (List.zipWith (· * ·) a b).sum := by
  induction a generalizing b acc with
  | nil => simp [viDotFrom] at h; simp [h]
  | cons x xs ih =>
    cases b with
    | nil => simp [viDotFrom] at h; simp [h]
    | cons y ys =>
      simp only [viDotFrom] at h
      cases hm : i32Mul x y with
      | panic s => simp [hm] at h
      | ok p =>
        simp only [hm] at h
        cases ha : i32Add acc p with
        | panic s => simp [ha] at h
        | ok acc' =>
          simp only [ha] at h
          have := ih acc' ys h
          obtain ⟨rfl, -⟩ := (i32Mul_ok_iff x y p).mp hm
          obtain ⟨rfl, -⟩ := (i32Add_ok_iff acc _ acc').mp ha
          rw [this]; simp [add_assoc]

theorem viDot_ok (a b : List Int) (r : Int) (h : viDot a b = .ok r) : r = (List.zipWith (· * ·) a b).sum := by
  have := viDotFrom_ok 0 a b r h; simpa using this

/-- It returns whenever all products and all partial sums are representable; e.g. components below 2¹⁵ in
dimension ≤ 3 (the bound is not sharp). -/
example : viDot [46340, 1] [46340, 1] = .ok 2147395601 := by decide
example : (viDot [46341, 0] [46341, 0]).isOk = false := by decide

/-- `Sum` of integer vectors: the ℤ sums when it returns. -/
theorem viSum_go_ok (acc : List Int) (vs : List (List Int)) (r : List Int) (h : viSum.go acc vs = .ok r) :
    r = vs.foldl (fun a v => List.zipWith (· + ·) a v) acc := by
  induction vs generalizing acc with
  | nil => simp [viSum.go] at h; simp [h]
  | cons v vs ih =>
    simp only [viSum.go] at h
    cases ha : viAdd acc v with
    | panic s => simp [ha] at h
    | ok acc' =>
      simp only [ha] at h
      obtain ⟨rfl, -⟩ := (viAdd_ok_iff acc v acc').mp ha
      simpa using ih _ h

theorem viSum_ok (n : Nat) (vs : List (List Int)) (r : List Int) (h : viSum n vs = .ok r) :
    r = vsum n vs := by
  exact viSum_go_ok _ vs r h

end Retro.Props.U01
