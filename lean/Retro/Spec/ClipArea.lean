/-
Spec oracle for C03, independent of the clipper model: the part of a clip-space triangle that
lies inside the frustum, measured in the triangle's own barycentric plane.

A point of triangle (P0,P1,P2) is P0 + b·(P1−P0) + c·(P2−P0) with b,c ≥ 0, b+c ≤ 1; each
frustum plane's signed distance is affine in (b,c). The inside region is the convex polygon
{(b,c) in the unit simplex | d_k(b,c) ≤ 0 for all six k}; its area (unit simplex = 1/2) is what
the output triangles together must cover, each with non-negative orientation.
-/
import Retro.Basic

namespace Retro.Spec.ClipArea

structure P4 where
  x : Rat
  y : Rat
  z : Rat
  w : Rat
  deriving Repr, DecidableEq, Inhabited

def P4.sub (a b : P4) : P4 := ⟨a.x - b.x, a.y - b.y, a.z - b.z, a.w - b.w⟩
def P4.dot (a b : P4) : Rat := a.x * b.x + a.y * b.y + a.z * b.z + a.w * b.w

/-- The six inside conditions `d ≤ 0`, written out from the frustum definition
−w ≤ x,y,z ≤ w (not copied from the model's plane table). -/
def dists (p : P4) : List Rat :=
  [ -p.z - p.w, p.z - p.w, -p.x - p.w, p.x - p.w, -p.y - p.w, p.y - p.w ]

/-- Least-squares barycentric coordinates (b,c) of q w.r.t. (p0,p1,p2); `none` if degenerate.
Also returns the squared residual relative to the triangle's size. -/
def bary (p0 p1 p2 q : P4) : Option (Rat × Rat × Rat) :=
  let e1 := p1.sub p0
  let e2 := p2.sub p0
  let r := q.sub p0
  let a11 := e1.dot e1
  let a12 := e1.dot e2
  let a22 := e2.dot e2
  let det := a11 * a22 - a12 * a12
  if det == 0 then none
  else
    let b1 := e1.dot r
    let b2 := e2.dot r
    let b := (b1 * a22 - b2 * a12) / det
    let c := (a11 * b2 - a12 * b1) / det
    let res := r.sub ⟨b * e1.x + c * e2.x, b * e1.y + c * e2.y, b * e1.z + c * e2.z, b * e1.w + c * e2.w⟩
    some (b, c, res.dot res / (a11 + a22))

/-- Conditioning of the barycentric solve: det / (a11·a22) ∈ [0,1]; small = sliver. -/
def conditioning (p0 p1 p2 : P4) : Rat :=
  let e1 := p1.sub p0
  let e2 := p2.sub p0
  let a11 := e1.dot e1
  let a22 := e2.dot e2
  let a12 := e1.dot e2
  if a11 == 0 || a22 == 0 then 0 else (a11 * a22 - a12 * a12) / (a11 * a22)

abbrev Pt2 := Rat × Rat

/-- Clip a convex polygon in the (b,c) plane against the half-plane f ≤ 0, f affine:
f(b,c) = f0 + b·fb + c·fc. Plain 2-D Sutherland–Hodgman on exact rationals. -/
def clipHalf (f0 fb fc : Rat) (poly : List Pt2) : List Pt2 :=
  match poly with
  | [] => []
  | first :: _ =>
    let rec go : List Pt2 → List Pt2
      | [] => []
      | [p] => edge p first
      | p :: q :: rest => edge p q ++ go (q :: rest)
    go poly
where
  edge (p q : Pt2) : List Pt2 :=
    let f (p : Pt2) : Rat := f0 + p.1 * fb + p.2 * fc
    let dp := f p
    let dq := f q
    let keep := if dp ≤ 0 then [p] else []
    if (dp < 0 && dq > 0) || (dp > 0 && dq < 0) then
      let t := dp / (dp - dq)
      keep ++ [(p.1 + (q.1 - p.1) * t, p.2 + (q.2 - p.2) * t)]
    else keep

def shoelace2 (poly : List Pt2) : Rat :=
  match poly with
  | [] => 0
  | first :: _ =>
    let rec go : List Pt2 → Rat
      | [] => 0
      | [p] => p.1 * first.2 - first.1 * p.2
      | p :: q :: rest => (p.1 * q.2 - q.1 * p.2) + go (q :: rest)
    go poly

/-- Area (in barycentric units, full triangle = 1/2) of the inside part of the triangle. -/
def insideArea (p0 p1 p2 : P4) : Rat :=
  let d0 := dists p0
  let d1 := dists p1
  let d2 := dists p2
  let planes := (d0.zip (d1.zip d2)).map fun (a, (b, c)) => (a, b - a, c - a)
  let poly := planes.foldl (fun poly (f0, fb, fc) => clipHalf f0 fb fc poly) [(0, 0), (1, 0), (0, 1)]
  shoelace2 poly / 2

/-- Signed area (same units) of an output triangle given by barycentric points. -/
def triArea (a b c : Pt2) : Rat :=
  ((b.1 - a.1) * (c.2 - a.2) - (c.1 - a.1) * (b.2 - a.2)) / 2

end Retro.Spec.ClipArea
