/-
Spec-side definitions for C16 (colour conversions).  They say what the property means and share no
code with the algorithm model in `Retro/Model/Color.lean`: the reference HSL -> RGB conversion is the
closed-form "k = (n + 12h) mod 12" formula of the CSS Color specification, not the sextant table.
Import-free apart from `Retro.Basic`.
-/
import Retro.Basic

namespace Retro.Spec.Color

def inUnit (x : Rat) : Bool := 0 ≤ x && x ≤ 1
def inUnit3 (a b c : Rat) : Bool := inUnit a && inUnit b && inUnit c

def maxR (a b c : Rat) : Rat := ratMax (ratMax a b) c
def minR (a b c : Rat) : Rat := ratMin (ratMin a b) c

/-- the saturated sum of an 8-bit channel and a difference, as a mathematical integer -/
def satU8 (s : Int) : Int := if s < 0 then 0 else if s > 255 then 255 else s

/-- `x mod 12` for a rational `x`, in `[0, 12)`. -/
def mod12 (x : Rat) : Rat := x - 12 * ((x / 12).floor : Int)

/-- CSS Color 4, "HSL to sRGB": `f(n) = l - a * max(-1, min(k - 3, 9 - k, 1))`,
`k = (n + 12 h) mod 12`, `a = s * min(l, 1 - l)`; hue in turns. -/
def hslChannel (n : Rat) (h s l : Rat) : Rat :=
  let k := mod12 (n + 12 * h)
  let a := s * ratMin l (1 - l)
  l - a * ratMax (-1) (ratMin (ratMin (k - 3) (9 - k)) 1)

def hslToRgbRef (h s l : Rat) : Rat × Rat × Rat :=
  (hslChannel 0 h s l, hslChannel 8 h s l, hslChannel 4 h s l)

/-- Textbook lightness and (HSL) saturation of an RGB colour, for the spec side of to_hsl. -/
def lightRef (r g b : Rat) : Rat := (maxR r g b + minR r g b) / 2

end Retro.Spec.Color
