/-
Decimal float literals as OBJ files write them ("plain or exponent notation") and the exact
rational number they denote.  Independent of the float parser model.
-/
import Retro.Basic

namespace Retro.Decimal

abbrev Bytes := List UInt8

structure ExpPart where
  upper : Bool              -- 'E' instead of 'e'
  sign : Option Bool        -- none, some false = '+', some true = '-'
  digits : List Nat
  deriving Repr, Inhabited

/-- `[+-]? digits [. digits] [(e|E) [+-]? digits]`. -/
structure Literal where
  sign : Option Bool        -- none, some false = '+', some true = '-'
  ip : List Nat             -- digits before the point
  dot : Bool
  fp : List Nat             -- digits after the point
  exp : Option ExpPart
  deriving Repr, Inhabited

def digs (ds : List Nat) : Bytes := ds.map fun d => UInt8.ofNat (48 + d)

def signText : Option Bool → Bytes
  | none => []
  | some false => [43]
  | some true => [45]

def expText : Option ExpPart → Bytes
  | none => []
  | some e => (if e.upper then 69 else 101) :: (signText e.sign ++ digs e.digits)

def fracText (l : Literal) : Bytes := if l.dot then 46 :: digs l.fp else []

def text (l : Literal) : Bytes := signText l.sign ++ (digs l.ip ++ (fracText l ++ expText l.exp))

def digitsVal (acc : Nat) (ds : List Nat) : Nat := ds.foldl (fun a d => a * 10 + d) acc

def allDigits (ds : List Nat) : Prop := ∀ d ∈ ds, d < 10

def wf (l : Literal) : Prop :=
  allDigits l.ip ∧ allDigits l.fp ∧ 0 < l.ip.length + l.fp.length ∧ (l.dot = false → l.fp = []) ∧
  (∀ e, l.exp = some e → allDigits e.digits ∧ e.digits ≠ [])

/-- All written digits as one natural number. -/
def mantissa (l : Literal) : Nat := digitsVal 0 (l.ip ++ l.fp)

def expVal : Option ExpPart → Int
  | none => 0
  | some e => if e.sign = some true then -(digitsVal 0 e.digits : Int) else (digitsVal 0 e.digits : Int)

/-- Decimal exponent of the mantissa: written exponent minus the number of fraction digits. -/
def exponent (l : Literal) : Int := expVal l.exp - (l.fp.length : Int)

/-- The number denoted: `± mantissa · 10^exponent`. -/
def value (l : Literal) : Rat :=
  let m : Rat := (mantissa l : Nat)
  let v := if exponent l ≥ 0 then m * ((10 ^ (exponent l).toNat : Nat) : Rat)
           else m / ((10 ^ (-exponent l).toNat : Nat) : Rat)
  if l.sign = some true then -v else v

end Retro.Decimal
