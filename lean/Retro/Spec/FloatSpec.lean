/-
What C20 *means*, independent of the models of the back ends: characterisations of the exact
functions by their defining inequalities on rationals, and the error measures used for the
approximate functions.
-/
import Retro.Basic

namespace Retro.Spec.FloatSpec
open Retro

/-- `r = ⌊q⌋` stated by the defining property: an integer with `r ≤ q < r + 1`. -/
def isFloorOf (q r : Rat) : Bool := r.den == 1 && decide (r ≤ q) && decide (q < r + 1)

/-- `r = |q|`: non-negative and equal to `q` or `−q`. -/
def isAbsOf (q r : Rat) : Bool := decide (0 ≤ r) && (r == q || r == -q)

/-- distance of a rational to the nearest integer -/
def distToInt (d : Rat) : Rat :=
  let f : Rat := (d.floor : Int)
  ratMin (d - f) (f + 1 - d)

/-- `r` is a least non-negative remainder of `x` modulo `m > 0`, up to one rounding of a value of
magnitude at most `m`: `0 ≤ r ≤ m` and `(r − x)/m` within `2^-22` of an integer. -/
def remRange (m r : Rat) : Bool := decide (0 ≤ r) && decide (r ≤ m)
def remCongruent (x m r : Rat) : Bool := decide (distToInt ((r - x) / m) ≤ ratPow2 (-22))

/-- unit in the last place of a finite non-zero binary32 value, from its exponent field -/
def ulpOfBits (b : UInt32) : Rat :=
  let e := F32.expField b
  ratPow2 ((if e == 0 then 1 else (e : Int)) - 150)

/-- error measures: absolute, relative to the reference, relative to max(|reference|, 1) (`mix`), in
ulps of the reference -/
def errWithin (kind : String) (bound : Rat) (got want : Rat) (wantBits : UInt32) : Bool :=
  let d := ratAbs (got - want)
  if kind == "abs" then decide (d ≤ bound)
  else if kind == "rel" then decide (d ≤ bound * ratAbs want)
  else if kind == "mix" then decide (d ≤ bound * ratMax (ratAbs want) 1)
  else decide (d ≤ bound * ulpOfBits wantBits)

/-- `r ≈ 1/√x` judged without any square root: `|r²·x − 1| ≤ 2ε + ε²` iff the relative error of `r` is
(at most about) `ε`. -/
def recipSqrtWithin (eps x r : Rat) : Bool := decide (ratAbs (r * r * x - 1) ≤ 2 * eps + eps * eps)

end Retro.Spec.FloatSpec
