/-
What property C11 *means*: a plain two-dimensional array and rectangular windows onto it.

Shares no code with `Retro.Model.Buf` (no offsets, lengths, strides or linear indices in the
window type): the root storage is arranged once as a list of rows of `pitch` cells; a view is a
window `(x0, y0, w, h)`; a sub-rectangle of a window is obtained by adding coordinates; reading
and writing go through `(row, column)` addressing of the list of lists.

Used by the driver as the oracle that judges the implementation's own output, and by
`Retro.Props.C11` as the right-hand side of the refinement theorems.
-/
import Retro.Basic

namespace Retro.Spec.Grid

abbrev Grid (α : Type) := List (List α)

section
variable {α : Type}

/-- Arrange flat storage as rows of `pitch` cells (the last row may be shorter). -/
def ofFlatAux (pitch : Nat) : Nat → List α → Grid α
  | 0, _ => []
  | fuel + 1, l => if l.isEmpty then [] else l.take pitch :: ofFlatAux pitch fuel (l.drop pitch)

def ofFlat (pitch : Nat) (flat : List α) : Grid α := ofFlatAux (max pitch 1) flat.length flat

def toFlat (g : Grid α) : List α := g.flatten

def cell? (g : Grid α) (x y : Nat) : Option α :=
  match g[y]? with
  | some row => row[x]?
  | none => none

def setCell (g : Grid α) (x y : Nat) (a : α) : Grid α :=
  match g[y]? with
  | some row => g.set y (row.set x a)
  | none => g

/-- A rectangular window onto the grid. -/
structure Win where
  x0 : Nat
  y0 : Nat
  w : Nat
  h : Nat
  deriving Repr, DecidableEq, Inhabited

/-- `l ≤ r ≤ w` and `t ≤ b ≤ h`: the rectangle `[l,r) × [t,b)` lies inside the window. -/
def Win.validRect (p : Win) (l t r b : Nat) : Bool :=
  decide (l ≤ r) && decide (r ≤ p.w) && decide (t ≤ b) && decide (b ≤ p.h)

def Win.sub (p : Win) (l t r b : Nat) : Win :=
  { x0 := p.x0 + l, y0 := p.y0 + t, w := r - l, h := b - t }

def Win.inside (p : Win) (x y : Nat) : Bool := decide (x < p.w) && decide (y < p.h)

def readCell (g : Grid α) (p : Win) (x y : Nat) : Option α :=
  if p.inside x y then cell? g (p.x0 + x) (p.y0 + y) else none

def allSome : List (Option α) → Option (List α)
  | [] => some []
  | none :: _ => none
  | some a :: rest => match allSome rest with | some r => some (a :: r) | none => none

/-- Row `y` of the window: `w` cells. -/
def readRow (g : Grid α) (p : Win) (y : Nat) : Option (List α) :=
  if y < p.h then allSome ((List.range p.w).map fun x => cell? g (p.x0 + x) (p.y0 + y)) else none

/-- The whole window as a grid: `h` rows of `w` cells. -/
def window (g : Grid α) (p : Win) : Option (Grid α) :=
  allSome ((List.range p.h).map fun y => readRow g p y)

def writeCell (g : Grid α) (p : Win) (x y : Nat) (a : α) : Grid α :=
  setCell g (p.x0 + x) (p.y0 + y) a

/-- Assign `f x y` to every cell of the window, row-major. -/
def writeAll (g : Grid α) (p : Win) (f : Nat → Nat → α) : Grid α :=
  (List.range p.h).foldl (fun g y => (List.range p.w).foldl (fun g x => writeCell g p x y (f x y)) g) g

/-- A `w × h` view with row pitch `stride` needs `(h-1)·stride + w` cells (none when `h = 0`)
and its rows must not overlap: this is what "the data can hold the dimensions" means. -/
def holds (w h stride n : Nat) : Bool :=
  decide (w ≤ stride) && (h == 0 || decide ((h - 1) * stride + w ≤ n))

end

end Retro.Spec.Grid
