/-
Spec oracle for C01: the ideal perspective-correct image by homogeneous rasterisation of the
UNCLIPPED clip-space triangles. It uses neither the clipper nor the scan converter:

a pixel centre with NDC coordinates (nx, ny) is covered by the visible part of triangle (P0,P1,P2)
iff the unique (a,b,c) with a+b+c = 1 and  Σ aᵢ(xᵢ − nx·wᵢ) = 0,  Σ aᵢ(yᵢ − ny·wᵢ) = 0  has
a,b,c ≥ 0, and the point P = Σ aᵢPᵢ has w > 0 and −w ≤ z ≤ w. Its reciprocal depth is 1/w and
its perspective-correct attribute is Σ aᵢ·attrᵢ.
-/
import Retro.Basic

namespace Retro.Spec.Ideal

structure V4 where
  x : Rat
  y : Rat
  z : Rat
  w : Rat
  deriving Repr, DecidableEq, Inhabited

/-- Result of probing one triangle at one NDC point. -/
structure Hit where
  visible : Bool
  recipW : Rat     -- 1/w
  a : Rat
  b : Rat
  c : Rat
  deriving Repr

def det3 (a11 a12 a13 a21 a22 a23 a31 a32 a33 : Rat) : Rat :=
  a11 * (a22 * a33 - a23 * a32) - a12 * (a21 * a33 - a23 * a31) + a13 * (a21 * a32 - a22 * a31)

/-- Solve for the barycentric weights of the triangle point projecting to (nx, ny). -/
def probe (p0 p1 p2 : V4) (nx ny : Rat) : Option Hit :=
  let u0 := p0.x - nx * p0.w
  let u1 := p1.x - nx * p1.w
  let u2 := p2.x - nx * p2.w
  let v0 := p0.y - ny * p0.w
  let v1 := p1.y - ny * p1.w
  let v2 := p2.y - ny * p2.w
  let d := det3 1 1 1 u0 u1 u2 v0 v1 v2
  if d == 0 then none
  else
    let a := det3 1 1 1 0 u1 u2 0 v1 v2 / d
    let b := det3 1 1 1 u0 0 u2 v0 0 v2 / d
    let c := det3 1 1 1 u0 u1 0 v0 v1 0 / d
    let w := a * p0.w + b * p1.w + c * p2.w
    let z := a * p0.z + b * p1.z + c * p2.z
    let vis := a ≥ 0 && b ≥ 0 && c ≥ 0 && w > 0 && -w ≤ z && z ≤ w
    some ⟨vis, if w == 0 then 0 else 1 / w, a, b, c⟩

inductive Cls where
  | visible (recipW attr : Rat)
  | hidden
  | ambiguous
  deriving Repr

/-- Classify a pixel centre (screen coords sx, sy) against one triangle, probing the centre and the
four points at ±δ pixels; `vp = (cx, cy, dx, dy)` is the viewport map ndc ↦ cx + dx·ndc. -/
def classify (delta : Rat) (vp : Rat × Rat × Rat × Rat) (p0 p1 p2 : V4) (a0 a1 a2 : Rat) (sx sy : Rat) : Cls :=
  let (cx, cy, dx, dy) := vp
  if dx == 0 || dy == 0 then .hidden else
  let probeAt (x y : Rat) := probe p0 p1 p2 ((x - cx) / dx) ((y - cy) / dy)
  let pts := [probeAt sx sy, probeAt (sx - delta) (sy - delta), probeAt (sx + delta) (sy - delta),
              probeAt (sx - delta) (sy + delta), probeAt (sx + delta) (sy + delta)]
  if pts.any Option.isNone then .ambiguous
  else
    let hs := pts.filterMap id
    if hs.all (·.visible) then
      match hs.head? with
      | some h => .visible h.recipW (h.a * a0 + h.b * a1 + h.c * a2)
      | none => .ambiguous
    else if hs.all (fun h => !h.visible) then .hidden
    else .ambiguous

/-- Expected content of one pixel. -/
inductive Expect where
  | unchanged
  | value (recipW attr : Rat) (attrRange : Rat)
  | skip
  deriving Repr

/-- Combine the per-triangle classifications at one pixel: nearest visible surface wins; a pixel is
skipped when any triangle is ambiguous there or the two nearest differ by less than 0.1 % in depth. -/
def combine (cls : List (Cls × Rat)) : Expect :=
  if cls.any (fun (c, _) => match c with | .ambiguous => true | _ => false) then .skip
  else
    let vis := cls.filterMap fun (c, rng) => match c with | .visible r a => some (r, a, rng) | _ => none
    match vis with
    | [] => .unchanged
    | first :: rest =>
      let best := rest.foldl (fun (b : Rat × Rat × Rat) (v : Rat × Rat × Rat) => if v.1 > b.1 then v else b) first
      let close := vis.filter fun v => v.1 ≠ best.1 && (best.1 - v.1) < best.1 / 1000
      -- exact ties are harmless when they carry the same attribute (the same triangle submitted twice)
      let ties := vis.filter fun v => v.1 == best.1 && v.2.1 != best.2.1
      if !close.isEmpty || !ties.isEmpty then .skip else .value best.1 best.2.1 best.2.2

end Retro.Spec.Ideal
