/-
Independent definitions of what the transform-algebra property *means*, used by the spec
oracle of C09/C08 on the implementation's own output. They share only the container types
with `Retro.Model.Mat`, none of its algorithms:

* `mul4`   the matrix product written as the textbook sum Σₖ aᵢₖ bₖⱼ
* `det4`   the determinant by the Laplace expansion into complementary 2×2 minors
* `adj4`   the classical adjugate (transposed cofactors), giving the inverse as `adj / det`
* `mulVec4` matrix times homogeneous column vector
-/
import Retro.Model.Mat

namespace Retro.Spec.Mat
open Retro.Mat

section
variable {α : Type} [Add α] [Sub α] [Mul α] [Neg α] [OfNat α 0] [OfNat α 1]

/-- Entry accessor by explicit row/column numbers (0-based); out of range is the last. -/
def e (m : M4 α) (i j : Nat) : α :=
  let r := match i with | 0 => m.r0 | 1 => m.r1 | 2 => m.r2 | _ => m.r3
  match j with | 0 => r.x | 1 => r.y | 2 => r.z | _ => r.w

/-- Build a matrix from an entry function. -/
def ofFn (f : Nat → Nat → α) : M4 α :=
  ⟨⟨f 0 0, f 0 1, f 0 2, f 0 3⟩, ⟨f 1 0, f 1 1, f 1 2, f 1 3⟩,
   ⟨f 2 0, f 2 1, f 2 2, f 2 3⟩, ⟨f 3 0, f 3 1, f 3 2, f 3 3⟩⟩

/-- (a·b)ᵢⱼ = Σₖ aᵢₖ bₖⱼ -/
def mul4 (a b : M4 α) : M4 α :=
  ofFn fun i j => e a i 0 * e b 0 j + e a i 1 * e b 1 j + e a i 2 * e b 2 j + e a i 3 * e b 3 j

/-- m · (x, y, z, w)ᵀ -/
def mulVec4 (m : M4 α) (v : V4 α) : V4 α :=
  ⟨e m 0 0 * v.x + e m 0 1 * v.y + e m 0 2 * v.z + e m 0 3 * v.w,
   e m 1 0 * v.x + e m 1 1 * v.y + e m 1 2 * v.z + e m 1 3 * v.w,
   e m 2 0 * v.x + e m 2 1 * v.y + e m 2 2 * v.z + e m 2 3 * v.w,
   e m 3 0 * v.x + e m 3 1 * v.y + e m 3 2 * v.z + e m 3 3 * v.w⟩

/-- Laplace expansion along the row pairs {0,1} / {2,3}. -/
def det4 (m : M4 α) : α :=
  let s0 := e m 0 0 * e m 1 1 - e m 1 0 * e m 0 1
  let s1 := e m 0 0 * e m 1 2 - e m 1 0 * e m 0 2
  let s2 := e m 0 0 * e m 1 3 - e m 1 0 * e m 0 3
  let s3 := e m 0 1 * e m 1 2 - e m 1 1 * e m 0 2
  let s4 := e m 0 1 * e m 1 3 - e m 1 1 * e m 0 3
  let s5 := e m 0 2 * e m 1 3 - e m 1 2 * e m 0 3
  let c5 := e m 2 2 * e m 3 3 - e m 3 2 * e m 2 3
  let c4 := e m 2 1 * e m 3 3 - e m 3 1 * e m 2 3
  let c3 := e m 2 1 * e m 3 2 - e m 3 1 * e m 2 2
  let c2 := e m 2 0 * e m 3 3 - e m 3 0 * e m 2 3
  let c1 := e m 2 0 * e m 3 2 - e m 3 0 * e m 2 2
  let c0 := e m 2 0 * e m 3 1 - e m 3 0 * e m 2 1
  s0 * c5 - s1 * c4 + s2 * c3 + s3 * c2 - s4 * c1 + s5 * c0

/-- Index `k` of the rows (columns) that remain after deleting index `i`. -/
def skip (i k : Nat) : Nat := if k < i then k else k + 1

/-- 3×3 determinant of the minor obtained by deleting row `i` and column `j`. -/
def minor (m : M4 α) (i j : Nat) : α :=
  let r0 := skip i 0; let r1 := skip i 1; let r2 := skip i 2
  let c0 := skip j 0; let c1 := skip j 1; let c2 := skip j 2
  e m r0 c0 * (e m r1 c1 * e m r2 c2 - e m r1 c2 * e m r2 c1)
  - e m r0 c1 * (e m r1 c0 * e m r2 c2 - e m r1 c2 * e m r2 c0)
  + e m r0 c2 * (e m r1 c0 * e m r2 c1 - e m r1 c1 * e m r2 c0)

/-- Classical adjugate: adjᵢⱼ = (−1)^(i+j) · minorⱼᵢ. -/
def adj4 (m : M4 α) : M4 α :=
  ofFn fun i j => if (i + j) % 2 = 0 then minor m j i else -(minor m j i)

def transpose4 (m : M4 α) : M4 α := ofFn fun i j => e m j i

def ident4 : M4 α := ofFn fun i j => if i = j then 1 else 0

end

end Retro.Spec.Mat
