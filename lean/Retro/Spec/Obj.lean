/-
What "well-formed OBJ text" means for property C14, independent of the reader:
a *document* is a list of line items (blank lines, comments, `v` / `vt` / `vn` / `f` lines with
free indentation and separators, the four index forms), `renderDoc` prints it, `docVerts` /
`docFaces` say which mesh it lists.  The reader model is not used here.
-/
import Retro.Basic
import Retro.Model.Obj

namespace Retro.ObjSpec
open Retro.Obj

abbrev Bytes := List UInt8

/-- Decimal digits of `n`, most significant first (`fuel` > number of digits). -/
def digitsAux : Nat → Nat → Bytes → Bytes
  | 0, _, acc => acc
  | f + 1, n, acc =>
    if n < 10 then UInt8.ofNat (48 + n) :: acc
    else digitsAux f (n / 10) (UInt8.ofNat (48 + n % 10) :: acc)

def natDigits (n : Nat) : Bytes := digitsAux (n + 1) n []

/-- How a face corner is written: `a`, `a/b`, `a//c`, `a/b/c` with one-based indices. -/
def cornerText (c : Indices) : Bytes :=
  match c.uv, c.n with
  | none, none => natDigits (c.pos + 1)
  | some t, none => natDigits (c.pos + 1) ++ 47 :: natDigits (t + 1)
  | none, some n => natDigits (c.pos + 1) ++ 47 :: 47 :: natDigits (n + 1)
  | some t, some n => natDigits (c.pos + 1) ++ 47 :: (natDigits (t + 1) ++ 47 :: natDigits (n + 1))

/-- A float as written: the token, the value it denotes, and the whitespace after it. -/
structure FloatTok where
  tok : Bytes
  val : UInt32
  sep : Bytes
  deriving Repr, Inhabited

/-- A face corner and the whitespace after it. -/
structure CornerTok where
  idx : Indices
  sep : Bytes
  deriving Repr, Inhabited

/-- One line of an OBJ document. `ws0` is the indentation, `sepK` the whitespace after the keyword. -/
inductive Item where
  | blank (ws : Bytes)
  | comment (ws0 text : Bytes)                     -- ws0 ++ '#' ++ text
  | vertex (ws0 sepK : Bytes) (x y z : FloatTok)
  | texcoord (ws0 sepK : Bytes) (u v : FloatTok)
  | normal (ws0 sepK : Bytes) (x y z : FloatTok)
  | face (ws0 sepK : Bytes) (a b c : CornerTok)
  deriving Inhabited

def renderFloat (f : FloatTok) : Bytes := f.tok ++ f.sep
def renderCorner (c : CornerTok) : Bytes := cornerText c.idx ++ c.sep

def renderItem : Item → Bytes
  | .blank ws => ws
  | .comment ws0 text => ws0 ++ 35 :: text
  | .vertex ws0 sepK x y z => ws0 ++ 118 :: (sepK ++ (renderFloat x ++ (renderFloat y ++ renderFloat z)))
  | .texcoord ws0 sepK u v => ws0 ++ 118 :: 116 :: (sepK ++ (renderFloat u ++ renderFloat v))
  | .normal ws0 sepK x y z => ws0 ++ 118 :: 110 :: (sepK ++ (renderFloat x ++ (renderFloat y ++ renderFloat z)))
  | .face ws0 sepK a b c => ws0 ++ 102 :: (sepK ++ (renderCorner a ++ (renderCorner b ++ renderCorner c)))

/-- Lines separated by `\n`, no newline after the last line. -/
def renderDoc : List Item → Bytes
  | [] => []
  | [it] => renderItem it
  | it :: rest => renderItem it ++ 10 :: renderDoc rest

/-- Every line terminated by `\n`. (`\r\n` is a line whose trailing whitespace ends in `\r`.) -/
def renderDocNl : List Item → Bytes
  | [] => []
  | it :: rest => renderItem it ++ 10 :: renderDocNl rest

/-! ### What the document lists -/

def docVerts : List Item → List P3
  | [] => []
  | .vertex _ _ x y z :: rest => (x.val, y.val, z.val) :: docVerts rest
  | _ :: rest => docVerts rest

def docFaces : List Item → List (Nat × Nat × Nat)
  | [] => []
  | .face _ _ a b c :: rest => (a.idx.pos, b.idx.pos, c.idx.pos) :: docFaces rest
  | _ :: rest => docFaces rest

def docTexCount : List Item → Nat
  | [] => 0
  | .texcoord .. :: rest => docTexCount rest + 1
  | _ :: rest => docTexCount rest

def docNormCount : List Item → Nat
  | [] => 0
  | .normal .. :: rest => docNormCount rest + 1
  | _ :: rest => docNormCount rest

/-! ### Well-formedness -/

/-- Whitespace inside a line: ASCII whitespace other than `\n`. -/
def isHws (b : UInt8) : Bool := b == 0x20 || b == 0x09 || b == 0x0C || b == 0x0D

def hws (s : Bytes) : Prop := ∀ b ∈ s, isHws b = true
/-- separator: non-empty horizontal whitespace -/
def sepOk (s : Bytes) : Prop := s ≠ [] ∧ hws s
/-- a token: non-empty, no whitespace of any kind -/
def tokOk (t : Bytes) : Prop := t ≠ [] ∧ ∀ b ∈ t, isWs b = false

/-- The float token is accepted by the float parser with the stated value. -/
def floatOk (pf : Bytes → Option UInt32) (last : Bool) (f : FloatTok) : Prop :=
  tokOk f.tok ∧ pf f.tok = some f.val ∧ hws f.sep ∧ (last = false → f.sep ≠ [])

def idxOk (i : Nat) : Prop := i + 1 < usizeBound

def cornerOk (last : Bool) (c : CornerTok) : Prop :=
  idxOk c.idx.pos ∧ (∀ t, c.idx.uv = some t → idxOk t) ∧ (∀ n, c.idx.n = some n → idxOk n) ∧
  hws c.sep ∧ (last = false → c.sep ≠ [])

def itemOk (pf : Bytes → Option UInt32) : Item → Prop
  | .blank ws => hws ws
  | .comment ws0 text => hws ws0 ∧ (10 : UInt8) ∉ text
  | .vertex ws0 sepK x y z => hws ws0 ∧ sepOk sepK ∧ floatOk pf false x ∧ floatOk pf false y ∧ floatOk pf true z
  | .texcoord ws0 sepK u v => hws ws0 ∧ sepOk sepK ∧ floatOk pf false u ∧ floatOk pf true v
  | .normal ws0 sepK x y z => hws ws0 ∧ sepOk sepK ∧ floatOk pf false x ∧ floatOk pf false y ∧ floatOk pf true z
  | .face ws0 sepK a b c => hws ws0 ∧ sepOk sepK ∧ cornerOk false a ∧ cornerOk false b ∧ cornerOk true c

def cornerInRange (nv nt nn : Nat) (c : Indices) : Prop :=
  c.pos < nv ∧ (∀ t, c.uv = some t → t < nt) ∧ (∀ n, c.n = some n → n < nn)

def itemInRange (nv nt nn : Nat) : Item → Prop
  | .face _ _ a b c => cornerInRange nv nt nn a.idx ∧ cornerInRange nv nt nn b.idx ∧ cornerInRange nv nt nn c.idx
  | _ => True

/-- A well-formed document: every line well-formed, every index refers to an element defined
somewhere in the file (before or after the face). -/
def docOk (pf : Bytes → Option UInt32) (doc : List Item) : Prop :=
  (∀ it ∈ doc, itemOk pf it) ∧
  (∀ it ∈ doc, itemInRange (docVerts doc).length (docTexCount doc) (docNormCount doc) it)

/-! ### A canonical printer -/

/-- A mesh together with the decimal text of every coordinate. -/
structure TextMesh where
  verts : List ((Bytes × UInt32) × (Bytes × UInt32) × (Bytes × UInt32))
  faces : List (Nat × Nat × Nat)

def TextMesh.vertVals (m : TextMesh) : List P3 := m.verts.map fun (x, y, z) => (x.2, y.2, z.2)

/-- Layout choices of the canonical printer. -/
structure Layout where
  facesFirst : Bool          -- faces before the vertices they use
  indent : Bytes             -- before every keyword
  sep : Bytes                -- between tokens
  trail : Bytes              -- at the end of every line ([13] gives CRLF line ends)
  comment : Option Bytes     -- a leading `#…` line
  blankBetween : Bool        -- an empty line between the two blocks

def vertItem (lay : Layout) (v : (Bytes × UInt32) × (Bytes × UInt32) × (Bytes × UInt32)) : Item :=
  .vertex lay.indent lay.sep ⟨v.1.1, v.1.2, lay.sep⟩ ⟨v.2.1.1, v.2.1.2, lay.sep⟩ ⟨v.2.2.1, v.2.2.2, lay.trail⟩

def faceItem (lay : Layout) (f : Nat × Nat × Nat) : Item :=
  .face lay.indent lay.sep ⟨⟨f.1, none, none⟩, lay.sep⟩ ⟨⟨f.2.1, none, none⟩, lay.sep⟩ ⟨⟨f.2.2, none, none⟩, lay.trail⟩

def printObj (lay : Layout) (m : TextMesh) : List Item :=
  (match lay.comment with | some t => [Item.comment lay.indent t] | none => []) ++
  (if lay.facesFirst then
    m.faces.map (faceItem lay) ++ ((if lay.blankBetween then [Item.blank lay.trail] else []) ++ m.verts.map (vertItem lay))
  else
    m.verts.map (vertItem lay) ++ ((if lay.blankBetween then [Item.blank lay.trail] else []) ++ m.faces.map (faceItem lay)))

def layoutOk (lay : Layout) : Prop :=
  hws lay.indent ∧ sepOk lay.sep ∧ hws lay.trail ∧ (∀ t, lay.comment = some t → (10 : UInt8) ∉ t)

def textMeshOk (pf : Bytes → Option UInt32) (m : TextMesh) : Prop :=
  (∀ v ∈ m.verts, (tokOk v.1.1 ∧ pf v.1.1 = some v.1.2) ∧ (tokOk v.2.1.1 ∧ pf v.2.1.1 = some v.2.1.2) ∧
      (tokOk v.2.2.1 ∧ pf v.2.2.1 = some v.2.2.2)) ∧
  (∀ f ∈ m.faces, f.1 < m.verts.length ∧ f.2.1 < m.verts.length ∧ f.2.2 < m.verts.length) ∧
  m.verts.length < usizeBound

end Retro.ObjSpec
