/-
What property C13 *means*, independent of `Retro.Model.Pnm`:
  * the bytes of a binary PPM file of given dimensions and pixels (plain string formatting);
  * how to read the two dimensions out of a PNM header (magic, then whitespace/comment separated
    decimal fields) — used only to judge "the decoded image has the header's dimensions".
Strings are fine here: nothing in this file is reasoned about by `decide`.
-/
import Retro.Basic

namespace Retro.Spec.Pnm

abbrev Pixel := UInt8 × UInt8 × UInt8

/-- `P6 <w> <h> 255\n` followed by `r g b` bytes, row-major. -/
def ppm (w h : Nat) (pixels : List Pixel) : List UInt8 :=
  (s!"P6 {w} {h} 255\n").toUTF8.toList ++ pixels.flatMap fun p => [p.1, p.2.1, p.2.2]

def isSpace (b : UInt8) : Bool := b == 32 || (9 ≤ b && b ≤ 13 && b != 11)

/-- Skip whitespace and `# … \n` comments. `fuel` bounds the recursion by the input length. -/
def skipGap : Nat → Bool → List UInt8 → List UInt8
  | 0, _, l => l
  | _, _, [] => []
  | f + 1, true, b :: rest => skipGap f (b != 10) rest
  | f + 1, false, b :: rest =>
    if b == 35 then skipGap f true rest
    else if isSpace b then skipGap f false rest
    else b :: rest

/-- A decimal field: digits (an optional leading `+` is what the implementation's number parser
tolerates); ends at whitespace, `#` or the end of input. -/
def field (l : List UInt8) : Option Nat × List UInt8 :=
  let tok := l.takeWhile fun b => !(isSpace b) && b != 35
  let rest := l.drop tok.length
  let ds := match tok with | 43 :: t => t | t => t
  -- a `#` glued to the field (comment not preceded by whitespace) is outside the grammar the
  -- property speaks about: no opinion
  if rest.head? == some 35 then (none, rest)
  else if ds.isEmpty || !(ds.all fun b => 48 ≤ b && b ≤ 57) then (none, rest)
  else (some (ds.foldl (fun acc b => acc * 10 + (b.toNat - 48)) 0), rest)

/-- Width and height announced by the header, if it has the standard shape. -/
def headerDims (bytes : List UInt8) : Option (Nat × Nat) :=
  match bytes with
  | _ :: _ :: rest =>
    match field (skipGap rest.length false rest) with
    | (some w, r1) =>
      match field (skipGap r1.length false r1) with
      | (some h, _) => some (w, h)
      | _ => none
    | _ => none
  | _ => none

end Retro.Spec.Pnm
