/-
Spec oracle for C04/C05, independent of the scan-conversion model: the edge-function inside
test with the property's tolerance band, and evaluation of the plane through three vertex values.
-/
import Retro.Basic

namespace Retro.Spec.Raster

structure P2 where
  x : Rat
  y : Rat
  deriving Repr, DecidableEq, Inhabited

/-- twice the signed area of (a, b, c) -/
def edge (a b c : P2) : Rat := (b.x - a.x) * (c.y - a.y) - (b.y - a.y) * (c.x - a.x)

def len2 (a b : P2) : Rat := (b.x - a.x) * (b.x - a.x) + (b.y - a.y) * (b.y - a.y)

inductive Cover where
  | inside    -- inside by more than the band: must be covered exactly once
  | outside   -- outside by more than the band: must not be covered
  | band      -- within the band of an edge: either is acceptable
  deriving Repr, DecidableEq

/-- Classification of point `c` against triangle (p0,p1,p2) with band width `eps` (pixels). -/
def classify (eps : Rat) (p0 p1 p2 c : P2) : Cover :=
  let a2 := edge p0 p1 p2
  if a2 == 0 then
    -- zero area: nothing is inside; far from the bounding box is outside
    let xmin := ratMin p0.x (ratMin p1.x p2.x)
    let xmax := ratMax p0.x (ratMax p1.x p2.x)
    let ymin := ratMin p0.y (ratMin p1.y p2.y)
    let ymax := ratMax p0.y (ratMax p1.y p2.y)
    if c.x < xmin - eps || c.x > xmax + eps || c.y < ymin - eps || c.y > ymax + eps then .outside else .band
  else
    let (q1, q2) := if a2 > 0 then (p1, p2) else (p2, p1)
    let es := [(edge p0 q1 c, len2 p0 q1), (edge q1 q2 c, len2 q1 q2), (edge q2 p0 c, len2 q2 p0)]
    let far (e l : Rat) : Bool := e * e > eps * eps * l
    if es.all (fun (e, l) => e > 0 && far e l) then .inside
    else if es.any (fun (e, l) => e < 0 && far e l) then .outside
    else .band

/-- Barycentric coordinates of `c` w.r.t. a non-degenerate triangle. -/
def bary (p0 p1 p2 c : P2) : Rat × Rat × Rat :=
  let a2 := edge p0 p1 p2
  (edge p1 p2 c / a2, edge p2 p0 c / a2, edge p0 p1 c / a2)

/-- Value at `c` of the affine function taking values v0,v1,v2 at the vertices. -/
def planeAt (p0 p1 p2 c : P2) (v0 v1 v2 : Rat) : Rat :=
  let (a, b, g) := bary p0 p1 p2 c
  a * v0 + b * v1 + g * v2

end Retro.Spec.Raster
