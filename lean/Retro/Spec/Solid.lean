/-
Spec oracle for C15: what "closed, consistently wound, unit normals, on the intended surface"
means for a concrete triangle mesh given by `f32` bit patterns.  Shares no code with the
lathe / Platonic models; evaluated by the driver on the implementation's own output.

Arithmetic is exact: a finite binary32 is an integer multiple of 2^-149, so a coordinate is held
as that integer (`Fx`, "degree 1"); products of k coordinates are integers at scale 2^(-149k)
("degree k").  Tolerances are rational constants multiplied out, so every comparison is an exact
integer comparison.

Tolerances (from the property text / DESIGN.md 7, C15).  Everything except the normal length is
RELATIVE to the size of the solid, so that a solid of radius 10⁻⁶ or 10⁶ is judged like one of
radius 1; the lathe solids have a fixed height 2 whatever their radius, therefore sizes are taken
per axis: Sx, Sy, Sz = largest |x|, |y|, |z| in the mesh, S = max of the three.
  unit normal        | |n|² − 1 | ≤ 2·10⁻³  (|‖n‖ − 1| ≤ 10⁻³), absolute, whatever the size
  coincident         |ax − bx| ≤ 10⁻⁴·Sx and |ay − by| ≤ 10⁻⁴·Sy and |az − bz| ≤ 10⁻⁴·Sz
                     (vertices merged for the topological checks)
  degenerate face    two merged corners equal, or the corners collinear:
                     |(b−a)×(c−a)| ≤ 10⁻⁹·|b−a|·|c−a|  (far below f32 resolution: a cylinder of
                     radius 10⁻⁶ and height 2 consists of needle faces with sine 5·10⁻⁷, which are
                     faces of the solid, not degenerate ones)
  on surface         radial distance to the ideal surface ≤ max(10⁻³·size, 2⁻²⁰·S) with size the
                     solid's own radius (sphere, capsule, tube of the torus, larger cone radius,
                     widest profile point); heights within max(10⁻³·Sy, 2⁻²⁰·S); box faces within
                     10⁻³ of the extent of their axis.  (2⁻²⁰·S: a few ulps of the coordinates –
                     a capsule of radius 10⁻⁶ around y = ±1 cannot be represented more finely.)
-/
import Retro.Basic

namespace Retro.Solid

abbrev Fx := Int
abbrev I3 := Int × Int × Int

/-- 2^149: the value 1.0 at degree 1. -/
def one : Int := (2 : Int) ^ 149

/-- value · 2^149 of a finite bit pattern. -/
def fix? (b : UInt32) : Option Fx :=
  let e := F32.expField b
  let m := F32.manField b
  if e == 255 then none
  else
    let mag : Nat := if e == 0 then m else (m + 0x800000) <<< (e - 1)
    some (if F32.signBit b then -(mag : Int) else (mag : Int))

def sub3 (a b : I3) : I3 := (a.1 - b.1, a.2.1 - b.2.1, a.2.2 - b.2.2)
def dot3 (a b : I3) : Int := a.1 * b.1 + a.2.1 * b.2.1 + a.2.2 * b.2.2
def cross3 (a b : I3) : I3 :=
  (a.2.1 * b.2.2 - a.2.2 * b.2.1, a.2.2 * b.1 - a.1 * b.2.2, a.1 * b.2.1 - a.2.1 * b.1)
def iabs (x : Int) : Int := if x < 0 then -x else x

structure Vtx where
  p : I3
  n : I3
  deriving Inhabited

structure Mesh where
  verts : Array Vtx
  faces : Array (Nat × Nat × Nat)
  deriving Inhabited

/-- (Sx, Sy, Sz): largest absolute coordinate per axis (degree 1), at least 1 ulp each. -/
def axisScales (m : Mesh) : I3 :=
  m.verts.foldl (fun s v => (max s.1 (iabs v.p.1), max s.2.1 (iabs v.p.2.1), max s.2.2 (iabs v.p.2.2))) (1, 1, 1)

/-- S: largest absolute coordinate. -/
def scaleOf (m : Mesh) : Int :=
  let s := axisScales m
  max s.1 (max s.2.1 s.2.2)

def indicesValid (m : Mesh) : Bool :=
  m.faces.all fun (a, b, c) => a < m.verts.size && b < m.verts.size && c < m.verts.size

/-- `| |n|² − 1 | ≤ 2·10⁻³`, i.e. `1000·| |n|² − one² | ≤ 2·one²` at degree 2. -/
def unitNormal (n : I3) : Bool :=
  1000 * iabs (dot3 n n - one * one) ≤ 2 * one * one

/-- Per axis `|a − b| ≤ 10⁻⁴·S_axis`. -/
def coincident (s : I3) (a b : I3) : Bool :=
  let d := sub3 a b
  10000 * iabs d.1 ≤ s.1 && 10000 * iabs d.2.1 ≤ s.2.1 && 10000 * iabs d.2.2 ≤ s.2.2

/-- Representative of each vertex: that of the first earlier vertex it coincides with, else itself.
(Quadratic; the meshes have a few hundred vertices.) -/
def representatives (m : Mesh) (s : I3) : Array Nat := Id.run do
  let mut rep : Array Nat := Array.mkEmpty m.verts.size
  for i in [0:m.verts.size] do
    let pi := m.verts[i]!.p
    let mut r := i
    for j in [0:i] do
      if r == i && coincident s m.verts[j]!.p pi then r := rep[j]!
    rep := rep.push r
  return rep

/-- Geometric normal `(b−a)×(c−a)` (degree 2) of a face. -/
def faceNormal (m : Mesh) (f : Nat × Nat × Nat) : I3 :=
  let a := m.verts[f.1]!.p
  cross3 (sub3 m.verts[f.2.1]!.p a) (sub3 m.verts[f.2.2]!.p a)

/-- Degenerate: two merged corners equal, or the corners collinear,
`|cross| ≤ 10⁻⁹·|b−a|·|c−a|` ⇔ `10¹⁸·|cross|² ≤ |b−a|²·|c−a|²` (scale-free). -/
def degenerate (m : Mesh) (rep : Array Nat) (f : Nat × Nat × Nat) : Bool :=
  let ra := rep[f.1]!
  let rb := rep[f.2.1]!
  let rc := rep[f.2.2]!
  let a := m.verts[f.1]!.p
  let e1 := sub3 m.verts[f.2.1]!.p a
  let e2 := sub3 m.verts[f.2.2]!.p a
  let c := cross3 e1 e2
  ra == rb || rb == rc || ra == rc || 1000000000000000000 * dot3 c c ≤ dot3 e1 e1 * dot3 e2 e2

/-- Every vertex normal lies strictly on the side of the geometric normal of every
non-degenerate face that uses it. Returns the first offending (face, corner). -/
def wrongSide (m : Mesh) (rep : Array Nat) (k : Nat := 1) : Option (Nat × Nat) := Id.run do
  for k in [0:m.faces.size] do
    let f := m.faces[k]!
    -- a sliver whose geometric normal is below the f32 noise of its own corner coordinates has no meaningful
    -- normal direction (the corners are binary32 values: each coordinate is off by up to 2^-24 of its size, so
    -- the cross product of two edges is uncertain by about ε·|p|·|e|): such faces are degenerate FOR THIS TEST
    -- only — `|cross| ≤ k·2·10⁻⁶·|p|·max(|e1|, |e2|)` — they still count as faces in the edge accounting. `k` is
    -- the number of roundings that ACCUMULATE in a corner (the lathe steps round the axis incrementally: the
    -- caller passes sectors/8), 1 for directly computed vertices
    let a := m.verts[f.1]!.p
    let b := m.verts[f.2.1]!.p
    let c' := m.verts[f.2.2]!.p
    let e1 := sub3 b a
    let e2 := sub3 c' a
    let cr := cross3 e1 e2
    let p2 := max (dot3 a a) (max (dot3 b b) (dot3 c' c'))
    let noisy := 250000000000 * dot3 cr cr ≤ (k * k : Nat) * (p2 * max (dot3 e1 e1) (dot3 e2 e2))
    if !degenerate m rep f && !noisy then
      let c := faceNormal m f
      for v in [f.1, f.2.1, f.2.2] do
        if dot3 m.verts[v]!.n c ≤ 0 then return some (k, v)
  return none

/-- Directed edges (over representatives) of the non-degenerate faces, as keys `a·V + b`. -/
def directedEdges (m : Mesh) (rep : Array Nat) : Array Nat := Id.run do
  let nv := m.verts.size
  let mut es : Array Nat := #[]
  for f in m.faces do
    if !degenerate m rep f then
      let a := rep[f.1]!
      let b := rep[f.2.1]!
      let c := rep[f.2.2]!
      es := es.push (a * nv + b) |>.push (b * nv + c) |>.push (c * nv + a)
  return es

def sortNat (a : Array Nat) : Array Nat := a.qsort (· < ·)

def hasAdjacentDup (a : Array Nat) : Bool := Id.run do
  for i in [1:a.size] do
    if a[i]! == a[i-1]! then return true
  return false

/-- No directed edge is used twice: adjacent faces traverse a shared edge in opposite directions
(consistent winding), also meaningful for surfaces with boundary. -/
def windingConsistent (edges : Array Nat) : Bool := !hasAdjacentDup (sortNat edges)

/-- Closed: every directed edge occurs exactly once and so does its reverse. -/
def watertight (nv : Nat) (edges : Array Nat) : Bool :=
  let fwd := sortNat edges
  let rev := sortNat (edges.map fun k => (k % nv) * nv + k / nv)
  !hasAdjacentDup fwd && fwd == rev

def countDistinct (a : Array Nat) : Nat := Id.run do
  let s := sortNat a
  let mut n := 0
  for i in [0:s.size] do
    if i == 0 || s[i]! != s[i-1]! then n := n + 1
  return n

/-- V − E + F over merged vertices used by non-degenerate faces (E = directed edges / 2). -/
def eulerChar (nv : Nat) (edges : Array Nat) : Int :=
  let v := countDistinct (edges.map fun k => k / nv)
  let f := edges.size / 3
  (v : Int) - (edges.size / 2 : Nat) + (f : Int)

/-- Six times the signed volume, Σ a·(b×c) (degree 3): positive iff the consistently wound closed
surface has its geometric normals pointing outwards. -/
def signedVolume6 (m : Mesh) (rep : Array Nat) : Int :=
  m.faces.foldl (fun acc f =>
    if degenerate m rep f then acc
    else acc + dot3 m.verts[f.1]!.p (cross3 m.verts[f.2.1]!.p m.verts[f.2.2]!.p)) 0

/-! ### Distance-to-surface tests without square roots -/

/-- `| √d2 − rho | ≤ t` for `d2 ≥ 0` (degree 2), `rho, t ≥ 0` (degree 1). -/
def nearSqrt (d2 rho t : Int) : Bool :=
  d2 ≤ (rho + t) * (rho + t) && (rho - t ≤ 0 || (rho - t) * (rho - t) ≤ d2)

/-- Point within the solid torus of tube radius `r'` around the circle of radius `R` in the xz-plane:
`(ρ − R)² + y² ≤ r'²` with `ρ = √(x²+z²)`  ⇔  `A ≤ 2Rρ`, `A = x²+y²+z²+R²−r'²`. -/
def insideTube (p : I3) (bigR r' : Int) : Bool :=
  let a := dot3 p p + bigR * bigR - r' * r'
  a ≤ 0 || a * a ≤ 4 * bigR * bigR * (p.1 * p.1 + p.2.2 * p.2.2)

inductive Shape where
  | unitSphere                          -- the four Platonic solids built on the unit sphere
  | box (l r : I3)
  | sphere (r : Int)
  | torus (bigR r : Int)
  | cone (base apex : Int)              -- radius varies linearly from y = −1 to y = 1 (cylinder: equal)
  | capsule (r : Int)
  | rings (secs nPoints : Nat) (prof : Array (Int × Int))   -- lathe of a polyline: (x, y) per ring
  deriving Inhabited

/-- The solid's own radial size (degree 1), to which the on-surface tolerance is relative. -/
def Shape.size : Shape → Int
  | .unitSphere => one
  | .box _ _ => one
  | .sphere r => r
  | .torus _ r => r
  | .cone base apex => max base apex
  | .capsule r => r
  | .rings _ _ prof => prof.foldl (fun s xy => max s (iabs xy.1)) 0

/-- Is the position `p` on the intended surface: radially to within `t`, in height to within `ty`
(both degree 1)? -/
def onSurface (sh : Shape) (t ty : Int) (p : I3) : Bool :=
  match sh with
  | .unitSphere => nearSqrt (dot3 p p) one t
  | .sphere r => nearSqrt (dot3 p p) r t
  | .box l r =>
    -- per axis: within 10⁻³ of the extent of one of the two faces
    let ok (c lo hi : Int) : Bool :=
      1000 * iabs (c - lo) ≤ iabs (hi - lo) || 1000 * iabs (c - hi) ≤ iabs (hi - lo)
    ok p.1 l.1 r.1 && ok p.2.1 l.2.1 r.2.1 && ok p.2.2 l.2.2 r.2.2
  | .torus bigR r => insideTube p bigR (r + t) && (r - t ≤ 0 || !insideTube p bigR (r - t))
  | .cone base apex =>
    -- 2ρ·one = 2·base·one + (apex − base)(y + one)   (degree 2)
    let rho2 := 2 * base * one + (apex - base) * (p.2.1 + one)
    let d2 := p.1 * p.1 + p.2.2 * p.2.2
    iabs p.2.1 ≤ one + ty &&
      -- |√d2 − ρ| ≤ t  ⇔  |√(4·one²·d2) − 2ρ·one| ≤ 2t·one
      nearSqrt (4 * one * one * d2) (iabs rho2) (2 * t * one)
  | .capsule r =>
    let d2 := p.1 * p.1 + p.2.2 * p.2.2
    let h := iabs p.2.1 - one
    if h ≤ 0 then nearSqrt d2 r t else nearSqrt (d2 + h * h) r t
  | .rings _ _ prof =>
    -- on the circle swept by some profile point (no assumption on the vertex order)
    prof.any fun (x, y) => iabs (p.2.1 - y) ≤ ty && nearSqrt (p.1 * p.1 + p.2.2 * p.2.2) (iabs x) t

/-- All eight corners of the box occur among the vertices. -/
def boxCornersPresent (m : Mesh) (l r : I3) : Bool :=
  (List.range 8).all fun k =>
    let c : I3 := (if k % 2 == 0 then l.1 else r.1, if (k / 2) % 2 == 0 then l.2.1 else r.2.1,
                   if (k / 4) % 2 == 0 then l.2.2 else r.2.2)
    let e := sub3 r l
    m.verts.any fun v =>
      let d := sub3 v.p c
      1000 * iabs d.1 ≤ iabs e.1 && 1000 * iabs d.2.1 ≤ iabs e.2.1 && 1000 * iabs d.2.2 ≤ iabs e.2.2

end Retro.Solid
