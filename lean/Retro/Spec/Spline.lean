/-
What property C17 *means*, written without reference to the algorithm model
(no De Casteljau, no Horner, no coefficient vectors): the cubic Bernstein form, its derivative,
and the piecewise curve a Bézier spline denotes. Import-free; generic over the scalar.
-/
namespace Retro.Spec.Spline

section
variable {α : Type} [Add α] [Sub α] [Mul α] [OfNat α 1] [OfNat α 2] [OfNat α 3]

/-- Cubic Bernstein form `(1−t)³a + 3(1−t)²t·b + 3(1−t)t²·c + t³d`. -/
def bernstein (a b c d t : α) : α :=
  (1 - t) * (1 - t) * (1 - t) * a + 3 * ((1 - t) * (1 - t) * t) * b
    + 3 * ((1 - t) * (t * t)) * c + t * t * t * d

/-- Its derivative in `t`: `3[(1−t)²(b−a) + 2(1−t)t(c−b) + t²(d−c)]`. -/
def bernsteinDeriv (a b c d t : α) : α :=
  3 * ((1 - t) * (1 - t) * (b - a) + 2 * ((1 - t) * t) * (c - b) + t * t * (d - c))
end

/-- Componentwise application of a 4-ary function (result as long as the shortest argument). -/
def map4 {α β : Type} (f : α → α → α → α → β) : List α → List α → List α → List α → List β
  | a :: as, b :: bs, c :: cs, d :: ds => f a b c d :: map4 f as bs cs ds
  | _, _, _, _ => []

section
variable {α : Type} [Add α] [Sub α] [Mul α] [LE α] [DecidableLE α] [NatCast α]
  [OfNat α 0] [OfNat α 1] [OfNat α 2] [OfNat α 3]

/-- The curve a spline with control points `pts` (`3n+1` of them) denotes: constant beyond the
ends, and on `[k/n, (k+1)/n]` the Bernstein cubic of points `3k … 3k+3` at the local parameter
`t·n − k`. `fl` is the integer floor of the scalar type. `none` if `pts` is too short. -/
def curve (fl : α → Int) (pts : List (List α)) (t : α) : Option (List α) :=
  let n := (pts.length - 1) / 3
  if t ≤ 0 then pts.head?
  else if 1 ≤ t then pts.getLast?
  else
    let k := min (fl (t * (n : α))).toNat (n - 1)
    let u := t * (n : α) - (k : α)
    match pts[3 * k]?, pts[3 * k + 1]?, pts[3 * k + 2]?, pts[3 * k + 3]? with
    | some p0, some p1, some p2, some p3 => some (map4 (fun a b c d => bernstein a b c d u) p0 p1 p2 p3)
    | _, _, _, _ => none

/-- Tangent of the segment (in its local parameter) that `curve` uses at `t`, ends clamped. -/
def curveTangent (fl : α → Int) (pts : List (List α)) (t : α) : Option (List α) :=
  let n := (pts.length - 1) / 3
  let k := min (fl (t * (n : α))).toNat (n - 1)
  let u := t * (n : α) - (k : α)
  let u := if u ≤ 0 then 0 else if 1 ≤ u then 1 else u
  match pts[3 * k]?, pts[3 * k + 1]?, pts[3 * k + 2]?, pts[3 * k + 3]? with
  | some p0, some p1, some p2, some p3 => some (map4 (fun a b c d => bernsteinDeriv a b c d u) p0 p1 p2 p3)
  | _, _, _, _ => none
end

/-- What a list of rays (point, direction) denotes as a piecewise cubic (cubic Hermite data, the
tangent at a knot being three times the direction): between consecutive rays `(p, v)`, `(q, w)` the
Bézier segment with control points `p, p + v, q − w, q`. -/
def hermiteSegments {α : Type} [Add α] [Sub α] :
    List (List α × List α) → List (List α × List α × List α × List α)
  | (p, v) :: (q, w) :: rest =>
    (p, List.zipWith (· + ·) p v, List.zipWith (· - ·) q w, q) :: hermiteSegments ((q, w) :: rest)
  | _ => []

/-- The control polygon of that piecewise cubic: segments joined at their shared end points. -/
def hermitePoints {α : Type} [Add α] [Sub α] (rays : List (List α × List α)) : List (List α) :=
  match hermiteSegments rays with
  | [] => []
  | (p0, p1, p2, p3) :: rest => p0 :: p1 :: p2 :: p3 :: rest.flatMap fun s => [s.2.1, s.2.2.1, s.2.2.2]

/-- The trace of a bisection with depth bound `dep` over `[a,b]` driven by a list of halt
answers (consumed in call order, none at depth 0): the emitted intervals with their remaining
depth, and the unread answers. `mid` is the bisection point. -/
def bisect {α : Type} (mid : α → α → α) : Nat → α → α → List Bool → List (α × α × Nat) × List Bool × Bool
  | 0, a, b, ds => ([(a, b, 0)], ds, true)
  | d + 1, a, b, [] => ([(a, b, d + 1)], [], false)
  | d + 1, a, b, true :: ds => ([(a, b, d + 1)], ds, true)
  | d + 1, a, b, false :: ds =>
    let m := mid a b
    let (l1, ds1, ok1) := bisect mid d a m ds
    let (l2, ds2, ok2) := bisect mid d m b ds1
    (l1 ++ l2, ds2, ok1 && ok2)

end Retro.Spec.Spline
