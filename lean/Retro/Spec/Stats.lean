/-
Spec oracle for the statistics clause of C07 ("the statistics equal what happened"): bounds on
prims.o, frags.i and frags.o computed from the SUBMITTED clip-space triangles alone. It shares no code
with the model of `render`: no clipper, no scan converter, no span loop, no counters. It uses

  * outcodes against the frustum  −w ≤ x, y, z ≤ w  to tell a triangle that is drawn whole from one that
    is dropped whole and from one the clipper will cut into pieces (at most 7: a triangle cut by six
    planes has at most 9 corners);
  * the sign of det [x y w] of the three vertices times the orientation of the viewport for the on-screen
    winding (the property's cull rule);
  * `Retro.Spec.Ideal.classify` (homogeneous rasterisation of the unclipped triangle, probed at the pixel
    centre and at ±δ) for "this pixel centre is covered by the visible part";
  * a per-pixel replay of the depth test in draw order on the ideal reciprocal depths for "this fragment
    was written".

Everything f32 evaluation may legitimately decide either way (centres within δ of an edge, depths within
0.1 %, facing of near-zero-area triangles, pieces of cut triangles) widens the interval instead of being
guessed, so the implementation's counters must lie inside `[lo, hi]`; for scenes whose triangles are all
drawn whole or dropped whole and whose pixel centres are all unambiguous, `lo = hi` and the check is exact.
-/
import Retro.Basic
import Retro.Spec.Ideal

namespace Retro.Spec.Stats
open Retro.Spec.Ideal

/-- Position of a clip-space triangle relative to the view frustum. -/
inductive Pos where
  | inside      -- all three vertices inside (closed): drawn whole, one output triangle
  | outside     -- all three vertices strictly outside one plane: dropped whole
  | straddles   -- cut by the clipper: 0..7 output triangles
  deriving Repr, DecidableEq

def vertInside (v : V4) : Bool :=
  v.w > 0 && -v.w ≤ v.x && v.x ≤ v.w && -v.w ≤ v.y && v.y ≤ v.w && -v.w ≤ v.z && v.z ≤ v.w

def frustumPos (p0 p1 p2 : V4) : Pos :=
  let vs := [p0, p1, p2]
  if vs.all vertInside then .inside
  else if vs.all (fun v => v.x < -v.w) || vs.all (fun v => v.x > v.w) ||
          vs.all (fun v => v.y < -v.w) || vs.all (fun v => v.y > v.w) ||
          vs.all (fun v => v.z < -v.w) || vs.all (fun v => v.z > v.w) then .outside
  else .straddles

/-- Face-cull setting. -/
inductive Cull where
  | off | back | front
  deriving Repr, DecidableEq

/-- Depth-test predicate (`none` = disabled). -/
inductive Test where
  | none | less | greater | equal
  deriving Repr, DecidableEq

/-- (certainly drawn, possibly drawn) after face culling. A back face is one whose on-screen winding has
positive signed area, i.e. det [x y w] · (viewport orientation) > 0 for w > 0. `area` is the screen-space
doubled area for a triangle drawn whole (compared with an absolute margin) and the determinant scaled by the
cube of the largest |w| otherwise (relative margin). -/
def facing (cull : Cull) (orient : Rat) (pos : Pos) (p0 p1 p2 : V4) (dxdy : Rat) : Bool × Bool :=
  match cull with
  | .off => (true, true)
  | _ =>
    let d := det3 p0.x p0.y p0.w p1.x p1.y p1.w p2.x p2.y p2.w
    let (measure, margin) : Rat × Rat :=
      match pos with
      | .inside => (d * dxdy / (p0.w * p1.w * p2.w), 1 / 1000)
      | _ =>
        let s := ratMax (ratAbs p0.w) (ratMax (ratAbs p1.w) (ratAbs p2.w))
        (d * orient, s * s * s / 1000)
    if ratAbs measure < margin || orient == 0 then (false, true)
    else
      let back := measure > 0
      let culled := if cull == .back then back else !back
      (!culled, !culled)

/-- One submitted triangle, prepared: where it is, whether it is drawn, and what the ideal rasteriser says
at every pixel of the buffer (row-major; `hidden` outside the viewport rectangle). -/
structure Prep where
  id : Nat
  pos : Pos
  sure : Bool      -- certainly drawn
  maybe : Bool     -- possibly drawn
  cls : Array Cls

structure Cfg where
  cull : Cull
  test : Test
  cw : Bool
  dw : Bool
  hasDepth : Bool
  zinit : Rat
  w : Nat
  h : Nat
  /-- viewport map ndc ↦ (cx + dx·x, cy + dy·y) -/
  vp : Rat × Rat × Rat × Rat
  inViewport : Nat → Nat → Bool
  /-- does the fragment shader give the fragment of pixel (x, y) a colour -/
  shaded : Nat → Nat → Bool
  /-- the draw order within every call is the submission order (no depth sort) -/
  ordered : Bool

def prep (c : Cfg) (id : Nat) (p0 p1 p2 : V4) : Prep :=
  let (_, _, dx, dy) := c.vp
  let orient : Rat := if dx * dy > 0 then 1 else if dx * dy < 0 then -1 else 0
  let pos := frustumPos p0 p1 p2
  let (sure, maybe) := facing c.cull orient pos p0 p1 p2 (dx * dy)
  let cls : Array Cls :=
    if pos == .outside || !maybe then #[]
    else Array.ofFn (n := c.w * c.h) fun i =>
      let x := i.val % c.w
      let y := i.val / c.w
      if c.inViewport x y then classify (1 / 50) c.vp p0 p1 p2 0 0 0 ((x : Rat) + 1 / 2) ((y : Rat) + 1 / 2)
      else .hidden
  { id := id, pos := pos, sure := sure && pos != .outside, maybe := maybe && pos != .outside, cls := cls }

def Prep.at (p : Prep) (c : Cfg) (x y : Nat) : Cls := p.cls.getD (y * c.w + x) .hidden

/-- Largest number of output triangles per submitted triangle. -/
def Prep.mult (p : Prep) : Nat := match p.pos with | .inside => 1 | .outside => 0 | .straddles => 7

/-- Interval arithmetic on counters. -/
structure Iv where
  lo : Nat := 0
  hi : Nat := 0
  deriving Repr, Inhabited

def Iv.add (a b : Iv) : Iv := ⟨a.lo + b.lo, a.hi + b.hi⟩
def Iv.contains (a : Iv) (n : Nat) : Bool := a.lo ≤ n && n ≤ a.hi

/-- prims.o: one per triangle drawn whole and not culled, none per triangle dropped whole, 0..7 per cut one. -/
def primsOut (calls : List (List Prep)) : Iv :=
  calls.foldl (fun acc call => call.foldl (fun acc p =>
    match p.pos with
    | .inside => acc.add ⟨if p.sure then 1 else 0, if p.maybe then 1 else 0⟩
    | .outside => acc
    | .straddles => acc.add ⟨0, if p.maybe then 7 else 0⟩) acc) {}

/-- frags.i: one per (drawn triangle, pixel centre in its visible part). -/
def fragsIn (_c : Cfg) (calls : List (List Prep)) : Iv :=
  calls.foldl (fun acc call => call.foldl (fun acc p =>
    if !p.maybe then acc else
    p.cls.foldl (fun acc cl =>
      match cl with
      | .hidden => acc
      | .visible _ _ => acc.add ⟨if p.sure && p.pos == .inside then 1 else 0, p.mult⟩
      | .ambiguous => acc.add ⟨0, p.mult⟩) acc) acc) {}

/-- State of one pixel during the replay: depth held and the triangle that wrote it. -/
structure PixState where
  z : Rat
  src : Option Nat
  wins : Nat := 0
  unsure : Bool := false

/-- frags.o at one pixel. Certain only if every triangle reaching the pixel is drawn whole, certainly drawn,
unambiguously covering or missing the centre, and no depth comparison is closer than 0.1 % (a triangle
compared with its own earlier fragment is an exact tie: same inputs, same f32 result). -/
def pixelOut (c : Cfg) (calls : List (List Prep)) (x y : Nat) : Iv :=
  if !c.cw then {} else
  let entries : List (Prep × Cls) := calls.flatMap fun call => call.filterMap fun p =>
    if !p.maybe then none else
    match p.at c x y with
    | .hidden => none
    | cl => some (p, cl)
  let hiAll : Nat := if c.shaded x y then entries.foldl (fun n (p, _) => n + p.mult) 0 else 0
  let clean := c.ordered && entries.all fun (p, cl) =>
    p.sure && p.pos == .inside && (match cl with | .visible _ _ => true | _ => false)
  if !clean then ⟨0, hiAll⟩ else
  let st := entries.foldl (fun (st : PixState) (p, cl) =>
    match cl with
    | .visible rw _ =>
      let same := st.src == some p.id
      let near := !same && ratAbs (rw - st.z) ≤ ratMax (ratAbs rw) (ratAbs st.z) / 1000
      let tested := c.hasDepth && c.test != .none
      let pass :=
        if !tested then true
        else match c.test with
          | .none => true
          | .less => !same && st.z < rw
          | .greater => !same && rw < st.z
          | .equal => same
      let st := if tested && near then { st with unsure := true } else st
      if pass && c.shaded x y then
        { st with wins := st.wins + 1, z := if c.dw && c.hasDepth then rw else st.z,
                  src := if c.dw && c.hasDepth then some p.id else st.src }
      else st
    | _ => st) ({ z := c.zinit, src := none } : PixState)
  if st.unsure then ⟨0, hiAll⟩ else ⟨st.wins, st.wins⟩

def fragsOut (c : Cfg) (calls : List (List Prep)) : Iv :=
  (List.range c.h).foldl (fun acc y => (List.range c.w).foldl (fun acc x => acc.add (pixelOut c calls x y)) acc) {}

end Retro.Spec.Stats
