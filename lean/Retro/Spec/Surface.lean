/-
Combinatorial meaning of "closed and consistently wound" for C15, on directed edges of a
triangle list whose coincident vertices have been merged.
-/
import Retro.Basic

namespace Retro.Surface

/-- Every directed edge occurs exactly once and its reverse occurs (hence also exactly once):
each undirected edge is shared by exactly two faces, which traverse it in opposite directions. -/
structure ClosedOriented (edges : List (Nat × Nat)) : Prop where
  nodup : edges.Nodup
  paired : ∀ e ∈ edges, (e.2, e.1) ∈ edges

/-- No directed edge is used twice (consistent winding of a surface that may have a boundary). -/
def Oriented (edges : List (Nat × Nat)) : Prop := edges.Nodup

abbrev Tri := Nat × Nat × Nat

/-- The three directed edges `a→b, b→c, c→a` of a face. -/
def triEdges (t : Tri) : List (Nat × Nat) := [(t.1, t.2.1), (t.2.1, t.2.2), (t.2.2, t.1)]

def dirEdges (fs : List Tri) : List (Nat × Nat) := fs.flatMap triEdges

/-- Bit `k` is set iff `k` is a corner of some face. -/
def usedMask (fs : List Tri) : Nat :=
  fs.foldl (fun m t => m ||| (1 <<< t.1) ||| (1 <<< t.2.1) ||| (1 <<< t.2.2)) 0

/-- Number of distinct vertices (below `bound`) used by the faces. -/
def vertexCount (bound : Nat) (fs : List Tri) : Nat :=
  ((List.range bound).filter fun k => (usedMask fs).testBit k).length

/-- V − E + F with E = half the number of directed edges (3 per face). -/
def eulerChar (bound : Nat) (fs : List Tri) : Int :=
  (vertexCount bound fs : Int) - ((3 * fs.length / 2 : Nat) : Int) + (fs.length : Int)

end Retro.Surface
