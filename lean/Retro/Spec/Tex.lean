/-
What C12 *means*, independently of the sampler model: the expected texel index as a function of the
exact rational value of the coordinate and the integer texture size.  No float operation, no cast
model, no clamp model is shared with `Retro.Model.Tex` / `Retro.Model.F32Ops`; only the decoding of a
bit pattern to its exact value (`F32.toRat?`) is common.
-/
import Retro.Basic

namespace Retro.Spec.Tex

/-- Repeating sampler: floor of the coordinate modulo the texture size (Euclidean remainder). -/
def repeatIdx (w : Nat) (q : Rat) : Nat := (q.floor % (w : Int)).toNat

/-- Clamping sampler: the coordinate clamped to `[0, w-1]`, then its integer part. -/
def clampIdx (w : Nat) (q : Rat) : Nat :=
  if q ≤ 0 then 0
  else if q ≥ ((w : Rat) - 1) then w - 1
  else q.floor.toNat

/-- In-range coordinates: the texel whose cell contains the coordinate. -/
def onceIdx (q : Rat) : Nat := q.floor.toNat

def inRange (w : Nat) (q : Rat) : Bool := decide (0 ≤ q) && decide (q < (w : Rat))

def below2p31 (q : Rat) : Bool := decide (-2147483648 < q) && decide (q < 2147483648)

end Retro.Spec.Tex
