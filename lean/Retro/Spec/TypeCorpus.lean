/-
C10 — the property's own quantifier domain: the fixed context of one variable per interesting type
over which programs are enumerated, and the hand-written corpus of minimal programs, one per misuse
class and API entry point, each paired with its well-typed twin.

This file only *names* programs (as `Expr` values); which of them are accepted is decided by the
model (`Retro.TypeAlg.classify`, proved in `Retro/Props/C10.lean`: `corpus_pairs_classified`) and by
rustc (the correspondence check compiles every one of them first on every run: corpus/C10/pairs.case).
-/
import Retro.Model.TypeAlg

namespace Retro.TypeCorpus
open Retro.TypeAlg

def b1 : Basis := .named 1
def b2 : Basis := .named 2
def b3 : Basis := .named 3

/-- Variable names of the context, in order. -/
def ctxNames : List String :=
  ["s", "n", "a", "v1", "v2", "w1", "v0", "p1", "p2", "q1", "vi", "vu",
   "c1", "c2", "c3", "c4", "m12", "m21", "m23", "mp1", "mp2", "n12", "mu", "c5", "m34"]

/-- The context: the type of each variable. -/
def Γ : Ctx := [
  f32,                              --  0 s   : f32
  .sc .i32,                         --  1 n   : i32
  .angle,                           --  2 a   : Angle
  .vec .f32 3 (.real 3 b1),         --  3 v1  : Vec3<B1>
  .vec .f32 3 (.real 3 b2),         --  4 v2  : Vec3<B2>
  .vec .f32 2 (.real 2 b1),         --  5 w1  : Vec2<B1>
  .vec .f32 3 (.real 3 .unit),      --  6 v0  : Vec3
  .pt .f32 3 (.real 3 b1),          --  7 p1  : Point3<B1>
  .pt .f32 3 (.real 3 b2),          --  8 p2  : Point3<B2>
  .pt .f32 2 (.real 2 b1),          --  9 q1  : Point2<B1>
  .vec .i32 2 (.real 2 b1),         -- 10 vi  : Vec2i<B1>
  .vec .u32 2 (.real 2 b1),         -- 11 vu  : Vec2u<B1>
  .col .f32 3 .rgb,                 -- 12 c1  : Color3f<Rgb>
  .col .f32 3 .hsl,                 -- 13 c2  : Color3f<Hsl>
  .col .f32 4 .rgba,                -- 14 c3  : Color4f<Rgba>
  .col .u8 3 .rgb,                  -- 15 c4  : Color3<Rgb>
  .mat 4 (.r2r 3 b1 b2),            -- 16 m12 : Mat4x4<RealToReal<3, B1, B2>>
  .mat 4 (.r2r 3 b2 b1),            -- 17 m21 : Mat4x4<RealToReal<3, B2, B1>>
  .mat 4 (.r2r 3 b2 b3),            -- 18 m23 : Mat4x4<RealToReal<3, B2, B3>>
  .mat 4 (.r2p b1),                 -- 19 mp1 : Mat4x4<RealToProj<B1>>
  .mat 4 (.r2p b2),                 -- 20 mp2 : Mat4x4<RealToProj<B2>>
  .mat 3 (.r2r 2 b1 b2),            -- 21 n12 : Mat3x3<RealToReal<2, B1, B2>>
  .mat 4 .unit,                     -- 22 mu  : Mat4x4<()>
  .col .u8 3 .hsl,                  -- 23 c5  : Color3<Hsl>
  .mat 3 (.r2r 4 b1 b2)]            -- 24 m34 : Matrix<[[f32; 3]; 3], RealToReal<4, B1, B2>>  (array too small
                                    --          for its map dimension; constructible with `Matrix::new`)

namespace V
def s : Expr := .var 0
def n : Expr := .var 1
def a : Expr := .var 2
def v1 : Expr := .var 3
def v2 : Expr := .var 4
def w1 : Expr := .var 5
def v0 : Expr := .var 6
def p1 : Expr := .var 7
def p2 : Expr := .var 8
def q1 : Expr := .var 9
def vi : Expr := .var 10
def vu : Expr := .var 11
def c1 : Expr := .var 12
def c2 : Expr := .var 13
def c3 : Expr := .var 14
def c4 : Expr := .var 15
def m12 : Expr := .var 16
def m21 : Expr := .var 17
def m23 : Expr := .var 18
def mp1 : Expr := .var 19
def mp2 : Expr := .var 20
def n12 : Expr := .var 21
def mu : Expr := .var 22
def c5 : Expr := .var 23
def m34 : Expr := .var 24
end V

structure Pair where
  label : String
  cls : Misuse
  bad : Expr      -- the misuse: must not compile
  good : Expr     -- the twin: matching tags or an explicit conversion, must compile

open V in
def pairs : List Pair := [
  -- operators on vectors and points
  ⟨"vec+vec other basis", .mixSpace, .bin .add v1 v2, .bin .add v1 (.un (.to (.real 3 b1)) v2)⟩,
  ⟨"vec-vec other basis", .mixSpace, .bin .sub v1 v2, .bin .sub v1 v1⟩,
  ⟨"vec+vec unit basis", .mixSpace, .bin .add v1 v0, .bin .add v1 (.un (.to (.real 3 b1)) v0)⟩,
  ⟨"vec+vec other dimension", .mixDim, .bin .add v1 w1, .bin .add w1 w1⟩,
  ⟨"vec+=vec other basis", .mixSpace, .bin .addAssign v1 v2, .bin .addAssign v1 v1⟩,
  ⟨"vec-=vec other basis", .mixSpace, .bin .subAssign v1 v2, .bin .subAssign v1 v1⟩,
  ⟨"point+point", .addPoints, .bin .add p1 p1, .bin .add p1 (.bin .sub p1 p1)⟩,
  ⟨"point+point via to_vec", .addPoints, .bin .add p1 p2, .bin .add p1 (.un (.to (.real 3 b1)) (.un .toVec p2))⟩,
  ⟨"point+=point", .addPoints, .bin .addAssign p1 p1, .bin .addAssign p1 v1⟩,
  ⟨"point+vec other basis", .mixSpace, .bin .add p1 v2, .bin .add p1 v1⟩,
  ⟨"point-point other basis", .mixSpace, .bin .sub p1 p2, .bin .sub p1 (.un (.to (.real 3 b1)) p2)⟩,
  ⟨"point-vec other dimension", .mixDim, .bin .sub p1 w1, .bin .sub q1 w1⟩,
  ⟨"int vec + int vec of other space", .mixSpace, .bin .add vi (.un (.to (.real 2 b2)) vi), .bin .add vi vi⟩,
  -- Affine / Linear methods
  ⟨"Affine::add vec", .mixSpace, .bin .mAdd v1 v2, .bin .mAdd v1 v1⟩,
  ⟨"Affine::add point+point", .addPoints, .bin .mAdd p1 p1, .bin .mAdd p1 v1⟩,
  ⟨"Affine::sub point", .mixSpace, .bin .mSub p1 p2, .bin .mSub p1 p1⟩,
  ⟨"Affine::add colour", .mixSpace, .bin .mAdd c1 c2, .bin .mAdd c1 (.un .toRgb c2)⟩,
  ⟨"Affine::sub colour", .mixSpace, .bin .mSub c1 c2, .bin .mSub c1 c1⟩,
  ⟨"Affine::add colour with alpha", .mixSpace, .bin .mAdd c1 c3, .bin .mAdd c1 (.un .toRgb c3)⟩,
  ⟨"Affine::sub u8 colour vs f32 colour space", .mixSpace, .bin .mSub c4 (.un .toHsl c4), .bin .mSub c4 c4⟩,
  ⟨"Affine::sub 8-bit colours of two spaces", .mixSpace, .bin .mSub c4 c5, .bin .mSub c5 c5⟩,
  ⟨"8-bit colour + difference of colours of another space", .mixSpace,
     .bin .mAdd c4 (.bin .mSub c5 c5), .bin .mAdd c4 (.bin .mSub c4 c4)⟩,
  ⟨"8-bit HSL colour + difference of RGB colours", .mixSpace,
     .bin .mAdd c5 (.bin .mSub c4 c4), .bin .mAdd c5 (.bin .mSub c5 c5)⟩,
  ⟨"8-bit colour + difference of converted colours", .mixSpace,
     .bin .mAdd (.un .toRgba c4) (.bin .mSub (.un .toHsla (.un .toRgba c4)) (.un .toHsla (.un .toRgba c4))),
     .bin .mAdd (.un .toRgba c4) (.bin .mSub (.un .toRgba c4) (.un .toRgba c4))⟩,
  ⟨"float colour + difference of colours of another space", .mixSpace,
     .bin .mAdd c1 (.bin .mSub c2 c2), .bin .mAdd c1 (.bin .mSub c1 c1)⟩,
  ⟨"point + difference of points of another basis", .mixSpace,
     .bin .add p1 (.bin .sub p2 p2), .bin .add p1 (.bin .sub p1 p1)⟩,
  -- lerp
  ⟨"lerp vec", .mixSpace, .ter .lerp v1 v2 s, .ter .lerp v1 (.un (.to (.real 3 b1)) v2) s⟩,
  ⟨"lerp point", .mixSpace, .ter .lerp p1 p2 s, .ter .lerp p1 p1 s⟩,
  ⟨"lerp colour", .mixSpace, .ter .lerp c1 c2 s, .ter .lerp c1 (.un .toRgb c2) s⟩,
  ⟨"lerp vec dimension", .mixDim, .ter .lerp v1 w1 s, .ter .lerp w1 w1 s⟩,
  ⟨"lerp pair", .mixSpace, .ter .lerp (.bin .pairOf v1 c1) (.bin .pairOf v2 c1) s,
     .ter .lerp (.bin .pairOf v1 c1) (.bin .pairOf v1 c1) s⟩,
  ⟨"lerp parameter is an angle", .angleUnit, .ter .lerp v1 v1 a, .ter .lerp v1 v1 (.un .toTurns a)⟩,
  -- dot / cross / distance / projection
  ⟨"dot", .mixSpace, .bin .dot v1 v2, .bin .dot v1 v1⟩,
  ⟨"cross", .mixSpace, .bin .cross v1 v2, .bin .cross v1 (.un (.to (.real 3 b1)) v2)⟩,
  ⟨"distance", .mixSpace, .bin .distance p1 p2, .bin .distance p1 p1⟩,
  ⟨"vector_project", .mixSpace, .bin .vproj v1 v2, .bin .vproj v1 v1⟩,
  ⟨"scalar_project", .mixSpace, .bin .sproj v1 v2, .bin .sproj v1 v1⟩,
  ⟨"distance_sqr", .mixSpace, .bin .distanceSqr p1 p2, .bin .distanceSqr p1 (.un (.to (.real 3 b1)) p2)⟩,
  ⟨"Vector::clamp bounds of another basis", .mixSpace, .ter .clamp v1 v2 v2, .ter .clamp v1 v1 v1⟩,
  ⟨"Point::clamp upper bound of another basis", .mixSpace, .ter .clamp p1 p1 p2, .ter .clamp p1 p1 p1⟩,
  ⟨"Vary::dv_dt vec", .mixSpace, .ter .dvdt v1 v2 s, .ter .dvdt v1 v1 s⟩,
  ⟨"Vary::dv_dt colour", .mixSpace, .ter .dvdt c1 c2 s, .ter .dvdt c1 (.un .toRgb c2) s⟩,
  ⟨"orient_y with a tagged axis", .mixSpace, .bin .orientY v0 v1, .bin .orientY v0 (.un (.to (.real 3 .unit)) v1)⟩,
  ⟨"z of a 2-vector", .mixDim, .un .compZ w1, .un .compZ v1⟩,
  -- Matrix::apply / apply_pt
  ⟨"apply outside source", .applySource, .bin .apply m12 v2, .bin .apply m12 v1⟩,
  ⟨"apply outside source, converted", .applySource, .bin .apply m12 v0, .bin .apply m12 (.un (.to (.real 3 b1)) v0)⟩,
  ⟨"apply_pt outside source", .applySource, .bin .applyPt m12 p2, .bin .applyPt m12 p1⟩,
  ⟨"apply 4x4 to 2-vector", .mixDim, .bin .apply m12 w1, .bin .apply n12 w1⟩,
  ⟨"apply twice", .applySource, .bin .apply m12 (.bin .apply m12 v1), .bin .apply m21 (.bin .apply m12 v1)⟩,
  ⟨"apply projective outside source", .applySource, .bin .apply mp2 p1, .bin .apply mp2 (.bin .applyPt m12 p1)⟩,
  -- compose / then
  ⟨"compose mismatch", .composeMismatch, .bin .compose m12 m12, .bin .compose m21 m12⟩,
  ⟨"compose wrong order", .composeMismatch, .bin .compose m12 m23, .bin .compose m23 m12⟩,
  ⟨"then wrong order", .composeMismatch, .bin .thn m23 m12, .bin .thn m12 m23⟩,
  ⟨"compose, explicit retag", .composeMismatch, .bin .compose m12 m23,
     .bin .compose m12 (.un (.to (.r2r 3 b2 b1)) m23)⟩,
  ⟨"projective after mismatching affine", .composeMismatch, .bin .compose mp1 m12, .bin .compose mp2 m12⟩,
  ⟨"transpose of a 3x3 array tagged as a map of R^4", .mixDim, .un .transpose m34, .un .transpose n12⟩,
  ⟨"transpose, explicit retag", .mixDim, .un .transpose m34, .un .transpose (.un (.to (.r2r 3 b1 b2)) m34)⟩,
  ⟨"compose 4x4 with 3x3", .composeMismatch, .bin .compose m12 n12, .bin .compose m21 m12⟩,
  -- projective maps are not affine
  ⟨"affine after projective", .projAsAffine, .bin .compose m12 mp1, .bin .compose mp2 m12⟩,
  ⟨"projective then affine", .projAsAffine, .bin .thn mp1 m12, .bin .thn m12 mp2⟩,
  ⟨"inverse of projective", .projAsAffine, .un .inverse mp1, .un .inverse m12⟩,
  ⟨"inverse of projective, explicit retag", .projAsAffine, .un .inverse mp1,
     .un .inverse (.un (.to (.r2r 3 b1 b1)) mp1)⟩,
  ⟨"transpose of projective", .projAsAffine, .un .transpose mp1, .un .transpose m12⟩,
  ⟨"determinant of projective", .projAsAffine, .un .determinant mp1, .un .determinant m12⟩,
  ⟨"apply_pt on projective", .projAsAffine, .bin .applyPt mp1 p1, .bin .apply mp1 p1⟩,
  ⟨"projective applied to a vector", .projAsAffine, .bin .apply mp1 v1, .bin .apply mp1 (.un .toPt v1)⟩,
  ⟨"re-apply to projected point", .applySource, .bin .apply m12 (.bin .apply mp1 p1),
     .bin .apply (.bin .compose mp2 m12) p1⟩,
  -- angles
  ⟨"rotate_x(number)", .angleUnit, .un .rotateX s, .un .rotateX (.un .degs s)⟩,
  ⟨"rotate_y(number)", .angleUnit, .un .rotateY s, .un .rotateY (.un .rads s)⟩,
  ⟨"rotate_z(int)", .angleUnit, .un .rotateZ n, .un .rotateZ (.un .turns s)⟩,
  ⟨"polar(r, number)", .angleUnit, .bin .polar s s, .bin .polar s (.un .degs s)⟩,
  ⟨"spherical(r, number, angle)", .angleUnit, .ter .spherical s s a, .ter .spherical s (.un .rads s) a⟩,
  ⟨"Angle(number)", .angleUnit, .un .angleCtor s, .un .rads s⟩,
  ⟨"Angle::from(number)", .angleUnit, .un .angleFrom s, .un .angleFrom (.un .rads s)⟩,
  ⟨"angle.0", .angleUnit, .un .field0 a, .un .toRads a⟩,
  ⟨"angle + number", .angleUnit, .bin .add a s, .bin .add a (.un .rads s)⟩,
  ⟨"angle.min(number)", .angleUnit, .bin .min a s, .bin .min a (.un .degs s)⟩,
  ⟨"angle % number", .angleUnit, .bin .rem a s, .bin .rem a (.un .turns s)⟩,
  ⟨"degs(angle)", .angleUnit, .un .degs a, .un .degs (.un .toDegs a)⟩,
  ⟨"asin(angle)", .angleUnit, .un .asin a, .un .asin (.un .sin a)⟩,
  ⟨"atan2(angle, number)", .angleUnit, .bin .atan2 a s, .bin .atan2 (.un .sin a) s⟩,
  ⟨"to_degs of a number", .angleUnit, .un .toDegs s, .un .toDegs (.un .rads s)⟩,
  -- colours
  ⟨"to_linear of HSL", .colourSpace, .un .toLinear c2, .un .toLinear (.un .toRgb c2)⟩,
  ⟨"to_linear twice", .colourSpace, .un .toLinear (.un .toLinear c1), .un .toLinear c1⟩,
  ⟨"to_srgb of sRGB", .colourSpace, .un .toSrgb c1, .un .toSrgb (.un .toLinear c1)⟩,
  ⟨"to_hsl of HSL", .colourSpace, .un .toHsl c2, .un .toHsl c1⟩,
  ⟨"to_rgb of RGB", .colourSpace, .un .toRgb c1, .un .toRgb c2⟩,
  ⟨"to_rgba of RGBA", .colourSpace, .un .toRgba c3, .un .toRgba c1⟩,
  ⟨"to_hsla of RGB", .colourSpace, .un .toHsla c1, .un .toHsla (.un .toRgba c1)⟩,
  ⟨"to_color4 of HSL", .colourSpace, .un .toColor4 c2, .un .toColor4 (.un .toRgb c2)⟩,
  ⟨"red channel of HSL", .colourSpace, .un .chanR c2, .un .chanR (.un .toRgb c2)⟩,
  ⟨"hue of RGB", .colourSpace, .un .chanH c1, .un .chanH (.un .toHsl c1)⟩,
  ⟨"to_hsl of u8 HSL", .colourSpace, .un .toHsl (.un .toHsl c4), .un .toHsl c4⟩,
  -- render(): the vertex shader must output clip-space positions
  ⟨"shader returns a model-space point", .shaderOutput, .un .render p1, .un .render (.bin .apply mp1 p1)⟩,
  ⟨"shader returns a vector", .shaderOutput, .un .render v1, .un .render (.bin .apply mp1 (.un .toPt v1))⟩,
  ⟨"shader returns a transformed point", .shaderOutput, .un .render (.bin .applyPt m12 p1),
     .un .render (.bin .apply mp2 (.bin .applyPt m12 p1))⟩]

end Retro.TypeCorpus
