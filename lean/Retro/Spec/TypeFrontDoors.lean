/-
C10, front doors OUTSIDE the expression language of `Model/TypeAlg.lean`: hand-written programs over the
same fixed context (`Spec/TypeCorpus.lean`: s:f32 a:Angle v1:Vec3<B1> v2:Vec3<B2> w1:Vec2<B1> p1:Point3<B1>
p2:Point3<B2> …) that reach the crate's tagged arithmetic through `Iterator::sum`, `Vary::vary/vary_to/step`,
`Angle::clamp/wrap/max`, `CubicBezier`/`BezierSpline`. Each misuse is followed by its twin.

These are TESTS (a fixed corpus judged by rustc on every run), not theorems: the model's `infer`/`classify`
do not know these entry points. They exist because a change can re-admit a misuse through a door the
language lacks (seed C10_7: `impl Sum<Point> for Vector` lets `[p, q].into_iter().sum::<Vec3>()` add points).

(name, accepted?, misuse class, body)
-/
namespace Retro.TypeFrontDoors

def V3B1 := "Vector<[f32; 3], Real<3, B1>>"
def V3B2 := "Vector<[f32; 3], Real<3, B2>>"
def P3B1 := "Point<[f32; 3], Real<3, B1>>"

def frontDoors : List (String × Bool × String × String) := [
  ("sum-points-to-vec",   false, "add-points", s!"let _: {V3B1} = [p1, p1].into_iter().sum();"),
  ("sum-points-to-point", false, "add-points", s!"let _: {P3B1} = [p1, p1].into_iter().sum();"),
  ("sum-vecs",            true,  "-",          s!"let _: {V3B1} = [v1, v1].into_iter().sum();"),
  ("sum-mixed-array",     false, "mix-space",  s!"let _: {V3B1} = [v1, v2].into_iter().sum();"),
  ("sum-other-basis",     false, "mix-space",  s!"let _: {V3B2} = [v1, v1].into_iter().sum();"),
  ("sum-other-dim",       false, "mix-dim",    s!"let _: {V3B1} = [w1, w1].into_iter().sum();"),
  ("sum-vecs-ref-fold",   true,  "-",          s!"let _: {V3B1} = [v1, v1].iter().fold(v1, |x, y| x + *y);"),
  ("sum-mixed-fold",      false, "mix-space",  s!"let _: {V3B1} = [v2, v2].iter().fold(v1, |x, y| x + *y);"),
  ("vary-to-mixed",       false, "mix-space",  "let _ = v1.vary_to(v2, 4);"),
  ("vary-to",             true,  "-",          "let _ = v1.vary_to(v1, 4);"),
  ("vary-point-by-point", false, "add-points", "let _ = p1.vary(p1, None);"),
  ("vary-point-by-vec",   true,  "-",          "let _ = p1.vary(v1, None);"),
  ("vary-point-by-other", false, "mix-space",  "let _ = p1.vary(v2, None);"),
  ("vary-to-points-mixed",false, "mix-space",  "let _ = p1.vary_to(p2, 3);"),
  ("vary-to-points",      true,  "-",          "let _ = p1.vary_to(p1, 3);"),
  ("step-point-by-point", false, "add-points", "let _ = p1.step(&p1);"),
  ("step-point-by-vec",   true,  "-",          "let _ = p1.step(&v1);"),
  ("step-vec-mixed",      false, "mix-space",  "let _ = v1.step(&v2);"),
  ("step-vec",            true,  "-",          "let _ = v1.step(&v1);"),
  ("angle-clamp-bare",    false, "angle-unit", "let _ = a.clamp(0.0, 1.0);"),
  ("angle-clamp",         true,  "-",          "let _ = a.clamp(degs(0.0), degs(1.0));"),
  ("angle-wrap-bare",     false, "angle-unit", "let _ = a.wrap(0.0, 6.28);"),
  ("angle-wrap",          true,  "-",          "let _ = a.wrap(turns(0.0), turns(1.0));"),
  ("angle-max-bare",      false, "angle-unit", "let _ = a.max(1.0);"),
  ("angle-max",           true,  "-",          "let _ = a.max(rads(1.0));"),
  ("angle-step-bare",     false, "angle-unit", "let _ = a.step(&1.0);"),
  ("angle-step",          true,  "-",          "let _ = a.step(&degs(1.0));"),
  ("bezier-mixed",        false, "mix-space",  "let _ = re::math::spline::CubicBezier([v1, v1, v2, v2]).eval(0.5);"),
  ("bezier",              true,  "-",          "let _ = re::math::spline::CubicBezier([v1, v1, v1, v1]).eval(0.5);"),
  ("bezier-points",       true,  "-",          "let _ = re::math::spline::CubicBezier([p1, p1, p1, p1]).eval(0.5);"),
  ("bezier-points-mixed", false, "mix-space",  "let _ = re::math::spline::CubicBezier([p1, p1, p2, p2]).eval(0.5);"),
  ("spline-mixed",        false, "mix-space",  "let _ = re::math::spline::BezierSpline::new(&[v1, v1, v1, v2]).eval(0.5);"),
  ("spline",              true,  "-",          "let _ = re::math::spline::BezierSpline::new(&[v1, v1, v1, v1]).eval(0.5);"),
  ("assign-sum-points",   false, "add-points", "let mut q = p1; q += p1;"),
  ("assign-point-vec",    true,  "-",          "let mut q = p1; q += v1;"),
  ("assign-point-other",  false, "mix-space",  "let mut q = p1; q -= v2;")
]

end Retro.TypeFrontDoors
