/-
U01 — independent statements of what the utilities are *for* (no code shared with the algorithm models
beyond the vector types): used by the spec oracles of `Drv/U01.lean` and as the right-hand sides of the
theorems in `Props/U01`.
-/
import Retro.Model.MeshUtil

namespace Retro.Spec.Util
open Retro.Mat Retro.MeshUtil

section
variable {α : Type} [Add α] [Sub α] [Mul α] [Neg α] [OfNat α 0] [OfNat α 1]

/-- How many of the three corners of `f` are vertex `i` (a face may repeat an index). -/
def mult (f : Face) (i : Nat) : Nat :=
  (if f.a = i then 1 else 0) + (if f.b = i then 1 else 0) + (if f.c = i then 1 else 0)

/-- `n` added to itself `k` times, starting from `v` (the order `+=` applies them). -/
def addTimes (v n : V3 α) : Nat → V3 α
  | 0 => v
  | k + 1 => (addTimes v n k).add n

/-- The area-weighted normal of a face: `(b − a) × (c − a)`; `none` if an index is out of range. -/
def faceNormal? (pos : List (V3 α)) (f : Face) : Option (V3 α) :=
  match pos[f.a]?, pos[f.b]?, pos[f.c]? with
  | some a, some b, some c => some (cross (b.sub a) (c.sub a))
  | _, _, _ => none

/-- The sum, over the faces in order, of the weighted normal of every face corner that is vertex `i`:
what `with_vertex_normals` normalises. -/
def vertexSum (pos : List (V3 α)) (faces : List Face) (i : Nat) : V3 α :=
  faces.foldl (fun acc f =>
    match faceNormal? pos f with
    | some n => addTimes acc n (mult f i)
    | none => acc) V3.zero

/-- Is vertex `i` a corner of some face? -/
def used (faces : List Face) (i : Nat) : Bool := faces.any (fun f => mult f i != 0)

end

end Retro.Spec.Util
