import Retro.Model.Buf
import Mathlib.Tactic.Linarith
import Mathlib.Tactic.SplitIfs

namespace Retro.Props.C11
open Retro Retro.Buf

def Fits (w h stride len : Nat) : Prop :=
  w ≤ stride ∧ (h = 0 ∨ ((h - 1) * stride + w ≤ len ∧ (h - 1) * stride + w < 4294967296))

theorem mulAddU32_ok {a b c : Nat} (h : a * b + c < 4294967296) : mulAddU32 a b c = .ok (a * b + c) := by
  have : a * b < 4294967296 := by omega
  simp [mulAddU32, mulU32, addU32, this, h]

theorem mulAddU32_panic {a b c : Nat} (h : ¬ a * b + c < 4294967296) : ∃ m, mulAddU32 a b c = .panic m := by
  by_cases hm : a * b < 4294967296
  · exact ⟨"attempt to add with overflow", by simp [mulAddU32, mulU32, addU32, hm, h]⟩
  · exact ⟨"attempt to multiply with overflow", by simp [mulAddU32, mulU32, hm]⟩

theorem innerNew_ok_iff (w h s len : Nat) : innerNew w h s len = .ok () ↔ Fits w h s len := by
  unfold Fits
  by_cases h1 : w ≤ s
  · by_cases h0 : h = 0
    · subst h0; simp [innerNew, h1]
    · have hpos : 0 < h := by omega
      have hA : h ≤ 1 ∨ s ≤ (h - 1) * s := by
        rcases Nat.lt_or_ge 1 h with h2 | h2
        · right; exact Nat.le_mul_of_pos_left s (by omega)
        · left; omega
      have hB : w = 0 ∨ h - 1 ≤ (h - 1) * s := by
        rcases Nat.eq_zero_or_pos w with hw | hw
        · left; exact hw
        · right; exact Nat.le_mul_of_pos_right (h - 1) (by omega)
      by_cases ha : (h - 1) * s + w < 4294967296
      · by_cases hs : (h - 1) * s + w ≤ len
        · have c2 : h ≤ 1 ∨ s ≤ len := by omega
          have c3 : w = 0 ∨ h ≤ len := by omega
          simp [innerNew, mulAddU32_ok ha, h1, hpos, hs, c2, c3, h0, ha]
        · simp only [innerNew, mulAddU32_ok ha, h1, hpos, hs, h0]
          split_ifs <;> simp_all
      · obtain ⟨m, hm⟩ := mulAddU32_panic ha
        simp only [innerNew, hm, h1, hpos, h0, ha]
        split_ifs <;> simp_all
  · simp [innerNew, h1]
end Retro.Props.C11
