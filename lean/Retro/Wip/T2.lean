import Retro.Lemmas.Buf
namespace Retro.Buf
variable {α : Type}

theorem writeRows_nil_rows (root : List α) (off : Nat) (starts : List Nat) (rows : List (List α))
    (h : ∀ r ∈ rows, r = []) : writeRows root off starts rows = root := by
  induction starts generalizing root rows with
  | nil => cases rows <;> rfl
  | cons s ss ih =>
    cases rows with
    | nil => rfl
    | cons r rs =>
      have : r = [] := h r (by simp)
      subst this
      simp only [writeRows, setRun]
      exact ih root rs (fun q hq => h q (by simp [hq]))

/-- Row-wise stores into non-overlapping rows `b + y·s` (`w ≤ s`): every addressed cell receives its
value, everything else is untouched, the length is preserved. -/
theorem writeRows_frame (off s w : Nat) (hws : w ≤ s) (n : Nat) :
    ∀ (root : List α) (b : Nat) (rows : List (List α)), rows.length = n → (∀ r ∈ rows, r.length = w) →
      (0 < n → off + b + (n - 1) * s + w ≤ root.length) →
      (writeRows root off ((List.range n).map (fun i => b + i * s)) rows).length = root.length ∧
      (∀ y x, y < n → x < w →
        (writeRows root off ((List.range n).map (fun i => b + i * s)) rows)[off + b + y * s + x]? =
          (rows[y]?).bind (·[x]?)) ∧
      (∀ j, (∀ y x, y < n → x < w → j ≠ off + b + y * s + x) →
        (writeRows root off ((List.range n).map (fun i => b + i * s)) rows)[j]? = root[j]?) := by
  induction n with
  | zero =>
    intro root b rows hl _ _
    have : rows = [] := List.length_eq_zero_iff.mp hl
    subst this
    simp [writeRows]
  | succ n ih =>
    intro root b rows hl hrw hfit
    cases rows with
    | nil => simp at hl
    | cons r rs =>
      have hr : r.length = w := hrw r (by simp)
      have hrs : rs.length = n := by simpa using hl
      have hfit0 : off + b + n * s + w ≤ root.length := by simpa using hfit (by omega)
      have hstarts : (List.range (n + 1)).map (fun i => b + i * s) =
          b :: (List.range n).map (fun i => (b + s) + i * s) := by
        rw [List.range_succ_eq_map, List.map_cons, List.map_map]
        simp only [Nat.zero_mul, Nat.add_zero, List.cons.injEq, true_and]
        apply List.map_congr_left
        intro i _
        simp only [Function.comp, Nat.succ_mul]; omega
      rw [hstarts]
      simp only [writeRows]
      have hfit' : 0 < n → off + (b + s) + (n - 1) * s + w ≤ (setRun root (off + b) r).length := by
        intro hn
        rw [setRun_length]
        have : n * s = (n - 1) * s + s := by
          conv_lhs => rw [show n = (n - 1) + 1 by omega]
          rw [Nat.succ_mul]
        omega
      obtain ⟨i1, i2, i3⟩ := ih (setRun root (off + b) r) (b + s) rs hrs (fun q hq => hrw q (by simp [hq])) hfit'
      refine ⟨by rw [i1, setRun_length], ?_, ?_⟩
      · intro y x hy hx
        cases y with
        | zero =>
          have hnot : ∀ y' x', y' < n → x' < w → off + b + 0 * s + x ≠ off + (b + s) + y' * s + x' := by
            intro y' x' _ _; omega
          rw [i3 _ hnot]
          simp only [Nat.zero_mul, Nat.add_zero, List.getElem?_cons_zero, Option.bind_some]
          have hys : n * s ≥ 0 := Nat.zero_le _
          exact setRun_getElem?_inside root (off + b) r x (by omega) (by omega)
        | succ y =>
          have := i2 y x (by omega) hx
          rw [List.getElem?_cons_succ, ← this]
          congr 1
          rw [Nat.succ_mul]; omega
      · intro j hj
        have hnot : ∀ y' x', y' < n → x' < w → j ≠ off + (b + s) + y' * s + x' := by
          intro y' x' hy' hx'
          have := hj (y' + 1) x' (by omega) hx'
          rw [Nat.succ_mul] at this; omega
        rw [i3 j hnot]
        apply setRun_getElem?_outside
        by_contra hcon
        have := hj 0 (j - (off + b)) (by omega) (by omega)
        omega
end Retro.Buf
