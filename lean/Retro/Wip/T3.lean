import Retro.Lemmas.Buf
import Retro.Spec.Grid
namespace Retro.Spec.Grid
variable {α : Type}

theorem ofFlatAux_getElem? (pitch : Nat) (hp : 0 < pitch) (fuel : Nat) (l : List α) (i : Nat)
    (hf : l.length ≤ fuel) :
    (ofFlatAux pitch fuel l)[i]? =
      if i * pitch < l.length then some ((l.drop (i * pitch)).take pitch) else none := by
  induction fuel generalizing l i with
  | zero =>
    have : l = [] := List.length_eq_zero_iff.mp (by omega)
    subst this; simp [ofFlatAux]
  | succ fuel ih =>
    by_cases he : l = []
    · subst he; simp [ofFlatAux]
    · have hl : 0 < l.length := List.length_pos_iff.mpr he
      have hemp : l.isEmpty = false := by simp [he]
      simp only [ofFlatAux, hemp]
      cases i with
      | zero => simp [hl]
      | succ i =>
        have := ih (l.drop pitch) i (by simp; omega)
        simp only [Bool.false_eq_true, if_false, List.getElem?_cons_succ, this, List.length_drop, List.drop_drop,
          Nat.succ_mul]
        by_cases h1 : i * pitch < l.length - pitch
        · have : i * pitch + pitch < l.length := by omega
          simp [h1, this, Nat.add_comm]; omega
        · have : ¬ i * pitch + pitch < l.length := by omega
          simp [h1, this]

/-- The grid arrangement of flat storage: cell `(cx, cy)` with `cx < S` is element `cy·S + cx`. -/
theorem cell?_ofFlat (S : Nat) (hS : 0 < S) (root : List α) (cx cy : Nat) (hcx : cx < S) :
    cell? (ofFlat S root) cx cy = root[cy * S + cx]? := by
  have hm : max S 1 = S := by omega
  simp only [cell?, ofFlat, hm, ofFlatAux_getElem? S hS _ root cy (Nat.le_refl _)]
  by_cases h : cy * S < root.length
  · simp [h, List.getElem?_take, hcx]
  · simp only [h, if_false]
    exact (List.getElem?_eq_none (by omega)).symm

theorem cell?_setCell (g : Grid α) (X Y : Nat) (a : α) (cx cy : Nat) :
    cell? (setCell g X Y a) cx cy =
      if cx = X ∧ cy = Y then (cell? g X Y).map (fun _ => a) else cell? g cx cy := by
  unfold setCell
  cases hY : g[Y]? with
  | none =>
    by_cases hc : cx = X ∧ cy = Y
    · obtain ⟨rfl, rfl⟩ := hc; simp [cell?, hY]
    · simp [hc]
  | some row =>
    have hlt : Y < g.length := by
      by_contra hcon
      rw [List.getElem?_eq_none (by omega)] at hY; cases hY
    by_cases hcy : cy = Y
    · subst hcy
      simp only [cell?, List.getElem?_set_self hlt, hY]
      by_cases hcx : cx = X
      · subst hcx
        by_cases hx : cx < row.length
        · simp [List.getElem?_set_self hx, List.getElem?_eq_getElem hx]
        · simp [List.getElem?_eq_none (Nat.le_of_not_lt hx)]; omega
      · simp [hcx, List.getElem?_set_ne (Ne.symm hcx)]
    · have : ¬ (cx = X ∧ cy = Y) := fun h => hcy h.2
      simp only [this, if_false, cell?]
      rw [List.getElem?_set_ne (Ne.symm hcy)]
end Retro.Spec.Grid
