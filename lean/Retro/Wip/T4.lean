import Retro.Model.Pnm
open Retro Retro.Pnm
theorem bitsOf_spec : ∀ n, n < 256 → ∀ i, i < 8 →
    (bitsOf (UInt8.ofNat n))[i]? = some (gray (if n.testBit (7 - i) then 0 else 255)) := by
  decide +kernel
