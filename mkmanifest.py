#!/usr/bin/env python3
"""Regenerates MANIFEST.json from props/Cxx.json (claimed checks) — run after editing props/."""
import json
import glob, os
props = {os.path.basename(p)[:-5]: json.load(open(p)) for p in glob.glob("props/C*.json")}
ids = ["C%02d" % i for i in range(1, 21)]
# Only properties listed in claimed.txt (maintained by hand, after review and a passing check) are claimed.
claimed = set(open("claimed.txt").read().split())
checks, na = [], []
for pid in ids:
    c = props.get(pid)
    if not c or pid not in claimed:
        na.append({"property_id": pid, "reason": (c or {}).get("na_reason", "no check registered yet: model, proofs and correspondence for this property are still being built (see DESIGN.md section 7); proof in Lean applies in principle")})
        continue
    checks.append({
        "property_id": pid,
        "quick_cmd": "./check %s --tier quick" % pid,
        "thorough_cmd": "./check %s --tier thorough" % pid,
        "evidence_file": "evidence/%s.json" % pid,
        "replay_cmd_template": "./check %s --replay {path}" % pid,
        "engine": "lean-proof+correspondence",
        "level_claimed": {"category": "proof", "text": c["level_text"], "design_ref": "DESIGN.md section 7, " + pid},
        "level_note": c["level_note"],
        "technique": c.get("technique", "Lean 4 theorems about a hand-written model; model tied to /repo by differential correspondence check with spec oracle"),
    })
_kf = json.load(open(os.path.join(os.path.dirname(os.path.abspath(__file__)), "known_findings.json")))["findings"]
_open = sorted({"%s %s" % (f["property"], f["key"]) for f in _kf if f["status"] == "finding"})
_fixed = sorted({f.get("commit", "?") for f in _kf if f["status"] == "fixed"})
NOTES = ("Genuine defects found were repaired in /repo by %d separate 'fix:' commits (known_findings.json lists them as fixed, "
         "with witnesses in corpus/); %d remain recorded findings: %s." % (len(_fixed), len(_open), "; ".join(_open)))
m = {
    "version": 1,
    "setup_cmd": "./setup.sh",
    "hooks": {
        "guard": "retrofire_verif",
        "enable": "none needed: every observation point is public API; the harness crate (harness/) links /repo/core and /repo/geom by path and is rebuilt by each check",
        "baseline_off_cmd": "cd /repo && cargo nextest run --workspace --no-fail-fast --tool-config-file pb:/w/lib/nextest.toml --profile pb --test-threads 8 --offline || cargo test --workspace --no-fail-fast --offline",
        "source_commits": [],
        "add_only": True,
    },
    "engines": [
        {"name": "lean-model-and-theorems", "path": "lean/", "serves_properties": [c["property_id"] for c in checks],
         "kind_free_text": "Lean 4 project: import-free executable model (Retro/Model, Retro/Spec), property theorems (Retro/Props/Cxx.lean), axiom audit, compiled model driver (drv)"},
        {"name": "rust-harness", "path": "harness/", "serves_properties": [c["property_id"] for c in checks],
         "kind_free_text": "cargo crate calling the real retrofire code in-process on generated cases, one op per line, panics caught"},
        {"name": "check-driver", "path": "check", "serves_properties": [c["property_id"] for c in checks],
         "kind_free_text": "python3: builds, audits axioms, runs the correspondence, applies known_findings.json, searches for failing inputs, writes evidence"},
        {"name": "u01-library-utilities (extra engine, serves no listed property)", "path": "lean/Retro/Props/U01.lean", "serves_properties": [],
         "kind_free_text": "growth of the model beyond the twenty properties: vec/point utilities, integer Affine/Linear, approx_eq, Mesh/Builder incl. with_vertex_normals, Stats arithmetic and formatting; same machinery (./check U01, props/U01.json, harness/src/bin/u01.rs, lean/Retro/Drv/U01.lean, design/U01.md); not a property check, never raises an alarm for a property"},
    ],
    "checks": checks,
    "not_applicable": na,
    "notes": NOTES,
}
json.dump(m, open("MANIFEST.json", "w"), indent=1)
print("claimed:", [c["property_id"] for c in checks])
