#!/bin/sh
# Offline build of the framework: Lean library + driver, then the Rust harness against /repo.
set -e
cd "$(dirname "$0")"
(cd lean && lake build Retro drv)
(cd harness && CARGO_NET_OFFLINE=true cargo build --release --offline)
