#!/bin/sh
# Offline build of the framework: Lean library + per-property drivers and theorem modules,
# then the Rust harness binaries against /repo. A property whose own targets fail to build
# is reported by its own check, so failures here do not stop the others.
cd "$(dirname "$0")"
(cd lean && lake build Retro.Basic Retro.Audit Retro.Drv.Common) || exit 1
for d in lean/Driver/C*.lean; do
  p="$(basename "$d" .lean)"
  (cd lean && lake build "Retro.Props.$p" "drv_$(echo "$p" | tr A-Z a-z)") || echo "setup: $p Lean targets failed"
done
(cd harness && CARGO_NET_OFFLINE=true cargo build --release --offline) || echo "setup: harness build failed"
exit 0
