#!/usr/bin/env python3
"""Confirm an independently produced breaking change and record it under /verif/seeded/<id>/.

  tools/confirm_seed.py <src_dir> <PROP> <pkg: core|geom> <features or -> [<id>]

<src_dir> holds patch.diff, demo.rs, notes.md (written by a sub-agent that never saw /verif).
Steps, all in a scratch worktree of /repo under /tmp (removed afterwards):
  1. demo on the unchanged tree            -> must pass
  2. apply patch; full test suite          -> must pass
  3. demo with the patch                   -> must fail
  4. tools/mutcheck.sh PROP patch (quick)  -> records whether our check detects it
Writes seeded/<id>/{patch.diff, demo.rs, notes.md, meta.json}.
"""
import json, os, shutil, subprocess, sys, tempfile, time

ROOT = os.path.dirname(os.path.dirname(os.path.abspath(__file__)))
ENV = dict(os.environ, CARGO_NET_OFFLINE="true", CARGO_TARGET_DIR=os.environ.get("CONFIRM_TARGET","/tmp/confirm_target"))


def sh(cmd, cwd=None, timeout=3600):
    p = subprocess.run(cmd, cwd=cwd, shell=True, capture_output=True, text=True, env=ENV, timeout=timeout)
    return p.returncode, (p.stdout + p.stderr)


def main():
    src, prop, pkg, feats = sys.argv[1:5]
    sid = sys.argv[5] if len(sys.argv) > 5 else os.path.basename(src.rstrip("/"))
    w = tempfile.mkdtemp(prefix="confirm.")
    wt = os.path.join(w, "repo")
    rc, out = sh("git -C /repo worktree add -q --detach %s HEAD" % wt)
    assert rc == 0, out
    meta = {"id": sid, "property": prop, "source": "independent sub-agent given only the property text and a scratch worktree",
            "package": pkg, "features": feats, "confirmed_at": time.strftime("%Y-%m-%dT%H:%M:%SZ", time.gmtime())}
    try:
        tdir = os.path.join(wt, pkg, "tests")
        os.makedirs(tdir, exist_ok=True)
        tname = "seed_demo_" + sid.lower().replace("-", "_")
        shutil.copy(os.path.join(src, "demo.rs"), os.path.join(tdir, tname + ".rs"))
        f = "" if feats == "-" else ("--no-default-features" if feats == "nodefault" else "--features " + feats)
        demo_cmd = "cargo test --offline -p retrofire-%s %s --test %s" % (pkg, f, tname)
        rc, out = sh(demo_cmd, cwd=wt)
        meta["demo_unchanged"] = "pass" if rc == 0 else "FAIL"
        meta["demo_cmd"] = demo_cmd
        if rc != 0:
            meta["demo_unchanged_tail"] = out[-1500:]
        rc, out = sh("git apply %s" % os.path.join(os.path.abspath(src), "patch.diff"), cwd=wt)
        meta["patch_applies"] = rc == 0
        if rc == 0:
            # the existing suite, without the demonstration file
            os.rename(os.path.join(tdir, tname + ".rs"), os.path.join(w, tname + ".rs"))
            rc, out = sh("cargo test --workspace --offline 2>&1 | grep -E '^test result|FAILED|error(\\[|:)' | head -60", cwd=wt)
            os.rename(os.path.join(w, tname + ".rs"), os.path.join(tdir, tname + ".rs"))
            ok = "FAILED" not in out and "error" not in out and "test result: ok" in out
            meta["suite_with_patch"] = "pass" if ok else "FAIL"
            meta["suite_summary"] = [l for l in out.splitlines() if "passed" in l and " 0 passed" not in l][:6]
            rc, out = sh(demo_cmd, cwd=wt)
            meta["demo_with_patch"] = "fail" if rc != 0 else "PASS(not a breaking change?)"
            meta["demo_with_patch_tail"] = "\n".join([l for l in out.splitlines() if "panicked" in l or "assert" in l][:5])
    finally:
        sh("git -C /repo worktree remove --force %s" % wt)
        shutil.rmtree(w, ignore_errors=True)
    confirmed = (meta.get("demo_unchanged") == "pass" and meta.get("suite_with_patch") == "pass"
                 and meta.get("demo_with_patch") == "fail")
    meta["confirmed"] = confirmed
    # our check against it
    t0 = time.time()
    rc, out = sh("%s/tools/mutcheck.sh %s %s" % (ROOT, prop, os.path.join(os.path.abspath(src), "patch.diff")), cwd=ROOT, timeout=7200)
    lines = [l for l in out.splitlines() if l.startswith("VIOLATION") or l.startswith("[%s]" % prop) or l.startswith("# verdict")]
    meta["our_check"] = {"cmd": "tools/mutcheck.sh %s seeded/%s/patch.diff" % (prop, sid), "exit": rc,
                         "detected": rc == 1 and any(l.startswith("VIOLATION") for l in lines),
                         "with_failing_input": any(l.startswith("VIOLATION") and "no-failing-input-found" not in l for l in lines),
                         "output": lines[:6], "wall_s": round(time.time() - t0, 1)}
    dst = os.path.join(ROOT, "seeded", sid)
    os.makedirs(dst, exist_ok=True)
    for fn in ("patch.diff", "demo.rs", "notes.md"):
        if os.path.exists(os.path.join(src, fn)) and os.path.abspath(os.path.join(src, fn)) != os.path.abspath(os.path.join(dst, fn)):
            shutil.copy(os.path.join(src, fn), os.path.join(dst, fn))
    try:
        notes = open(os.path.join(src, "notes.md")).read()
        meta["needs_to_manifest"] = notes[:1200]
    except OSError:
        pass
    json.dump(meta, open(os.path.join(dst, "meta.json"), "w"), indent=1)
    print(sid, "confirmed=%s" % confirmed, "detected=%s" % meta["our_check"]["detected"],
          "failing_input=%s" % meta["our_check"]["with_failing_input"])
    for l in lines[:4]:
        print("   ", l[:260])


if __name__ == "__main__":
    main()
