#!/bin/sh
# Re-assembles DESIGN.md: the plan (sections 1-10, everything above the FIRST marker line) + design/AS_BUILT.md
# + the table generated from seeded/*/meta.json.
cd "$(dirname "$0")/.."
M='<!-- AS-BUILT BELOW: assembled by tools/mkdesign.sh from design/AS_BUILT.md and seeded/*/meta.json -->'
N=$(grep -nF "$M" DESIGN.md | head -1 | cut -d: -f1)
if [ -n "$N" ]; then
  head -n "$((N - 1))" DESIGN.md > DESIGN.md.new
else
  cp DESIGN.md DESIGN.md.new
fi
{ cat DESIGN.md.new; echo "$M"; cat design/AS_BUILT.md; python3 tools/seeded_table.py; echo; } > DESIGN.md
rm -f DESIGN.md.new
