#!/bin/sh
# Run SEVERAL properties' quick checks against ONE scratch copy of /repo with a patch applied
# (same as tools/mutcheck.sh, but one worktree / one cargo target dir for all of them).
#   tools/mutall.sh patch.diff [C01 C02 ...]      (default: all claimed properties)
# Prints one line per property; exit 1 if any check reported a violation.
set -u
PATCH="$(readlink -f "$1")"; shift
PROPS="${*:-$(cat "$(dirname "$0")/../claimed.txt")}"
W="$(mktemp -d /tmp/mut.XXXXXX)"
git -C /repo worktree add -q --detach "$W/repo" HEAD || exit 3
if ! git -C "$W/repo" apply "$PATCH"; then echo "patch does not apply"; git -C /repo worktree remove --force "$W/repo"; rm -rf "$W"; exit 3; fi
ANY=0
for P in $PROPS; do
  OUT="$(VERIF_REPO="$W/repo" VERIF_SCRATCH="$W/out" "$(dirname "$0")/../check" "$P" --tier "${TIER:-quick}" 2>&1)"
  RC=$?
  echo "$OUT" | grep -E "^\[$P\] (ok|FAIL)|^VIOLATION" | tr '\n' ' '; echo
  [ $RC -ne 0 ] && ANY=1
done
git -C /repo worktree remove --force "$W/repo"; rm -rf "$W"
exit $ANY
