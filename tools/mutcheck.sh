#!/bin/sh
# Run a property's quick check against a scratch copy of /repo with a patch applied,
# without touching /repo or /verif's evidence.   tools/mutcheck.sh C19 /path/to/patch.diff
# Exit status: that of ./check (1 = the change was detected).
set -u
PROP="$1"; PATCH="$(readlink -f "$2")"
W="$(mktemp -d /tmp/mut.XXXXXX)"
git -C /repo worktree add -q --detach "$W/repo" HEAD || exit 3
if ! git -C "$W/repo" apply "$PATCH"; then echo "patch does not apply"; git -C /repo worktree remove --force "$W/repo"; rm -rf "$W"; exit 3; fi
VERIF_REPO="$W/repo" VERIF_SCRATCH="$W/out" "$(dirname "$0")/../check" "$PROP" --tier "${TIER:-quick}"
RC=$?
if [ -d "$W/out/replays" ]; then for f in "$W"/out/replays/*; do echo "--- $f"; head -12 "$f" | cut -c1-220; done; fi
git -C /repo worktree remove --force "$W/repo"; rm -rf "$W"
exit $RC
