#!/usr/bin/env python3
"""Prints the markdown table of seeded/<id>/meta.json results (appended to DESIGN.md by tools/mkdesign.sh)."""
import json, glob, os
rows = []
first_run = json.load(open(os.path.join(os.path.dirname(__file__), "..", "seeded", "FIRST_RUN.json")))
for f in sorted(glob.glob(os.path.join(os.path.dirname(__file__), "..", "seeded", "*", "meta.json"))):
    m = json.load(open(f))
    oc = m.get("our_check", {})
    verdict = "MISSED" if not oc.get("detected") else ("VIOLATION with failing input" if oc.get("with_failing_input") else "VIOLATION no-failing-input-found")
    key = ""
    for l in oc.get("output", []):
        if "key=" in l:
            key = l.split("key=")[1].split()[0]
            break
    note = first_run.get(m["id"], "")
    first = (m.get("needs_to_manifest", "").strip().splitlines() or [""])
    title = next((l.strip("# ").strip() for l in first if l.strip()), "")[:110]
    rows.append("| %s | %s | %s | %s | %s%s |" % (m["id"], m["property"], "yes" if m.get("confirmed") else "NO", title.replace("|", "/"), verdict + (" (`%s`)" % key if key and key != "-" else ""), (" — " + note) if note else ""))
print("| id | property | confirmed | change (first line of notes.md) | our check |")
print("|---|---|---|---|---|")
print("\n".join(rows))
